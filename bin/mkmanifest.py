#!/usr/bin/env python3
"""Regenerates /verif/MANIFEST.json from the table below (one entry per claimed property)."""
import json, subprocess

HOOK_COMMITS = ["1ce4350", "cf6c482"]

SYM_NOTE = ("Trusted: the reading of the statement written in spec/Val.tla, Shape.tla, TensorOps.tla, Components.tla, Prog.tla (derivatives only by symbolic differentiation of definitions; closed forms cross-checked by TLC on rational instances); the float64 term evaluator and its first-order error bound (Go math on both sides). Shapes / arguments exhaustive within the stated grid; element values sampled (seeded, boundary values included), not exhaustive.")
SYM_TECH = "TLA+ spec evaluated by TLC as exhaustive-in-bounds case generator; spec -> code replay with float64 assignments"
TWINS = (" Every replayed case is additionally executed in four twin runs whose tensors, flags and gradients must be bit-identical to the plain run: the inputs rebuilt with the same elements through other constructions (patched Zeros / Full tensor, concatenated slices, double transpose, reshape round trip, same-shape broadcast, product with the identity matrix; NElems, Equals and the whole-tensor statistics are compared as well); read-only API calls (Slice, Reshape family, Transpose, reductions, Concat / Patch with the tensor as operand ...) interleaved after every instruction, the tensors those calls return being re-read at the end; a second epoch on the same tensor and component objects after ResetGradContext, following a back-propagated first epoch and following an untracked first epoch. Every instruction is framed by a bit-level snapshot of all existing tensors (shape, elements, gradient context). The replaying caller keeps one slice object per distinct index / dimension list and passes that same object in every call that needs those values. All replays run in worker processes that enter the library from one goroutine only; the back-propagation of every case is also recorded through the library's trace sink and validated by TLC (Trace_BPStruct). Differential runs that realise another property's scenario (all inputs untracked: C08; caller slices overwritten: C10) are made by that property's check only.")
BIG = " Tensors of 1000-16000 elements are covered through parametric templates (spec/Big.tla): one term over the output position per result, proved by TLC (ASSUME TemplatesAgree / GradTemplatesAgree) to unroll to the declarative definition at every position of every shape of the small grid."

def sym(text, design, extra_note=""):
    return dict(level="exploration", text=text + TWINS, design=design, note=SYM_NOTE + extra_note, technique=SYM_TECH)

KF = " Known finding D2 (broadcast gradient is the mean, not the sum; known_findings.json): cases whose gradient equals exactly the deviation's prediction emitted by the spec (Backprop.tla, dev = broadcast_grad_mean) are reported as KNOWN-FINDING; any other discrepancy is a VIOLATION."

CHECKS = {
 "C02": sym("TLC enumerates, for each of the 33 differentiable operations, every operand shape / argument / tracked-operand subset of the grid and emits the gradient each tracked operand must receive for an arbitrary upstream weighting, obtained by symbolic differentiation of the operation's declarative definition (the spec has no backward rules). The harness back-propagates the real graph with values from the operation's differentiability domain and compares shape, finiteness and every element; BackPropagate must not fail after an accepted forward call." + BIG + "", "DESIGN.md 3/C02"),
 "C03": sym("TLC enumerates every (element-wise operation, shape, parameter) and every broadcast-compatible ordered shape pair of the grid and emits the expected shape and the term of every result element, also for the explicitly-broadcast-first form; the harness executes each with float64 assignments (zeros, -0, ties, 1e+-150) and compares every element; incompatible pairs must be rejected." + BIG + "", "DESIGN.md 3/C03"),
 "C04": sym("TLC enumerates MatMul (all m,n,k x all broadcast-compatible batch-shape pairs, ranks 2..6), Dot (ranks 1..6) and Transpose (ranks 2..6) cases with the sum-of-products term of every element over distinct symbols, checks A.I = A, (A.B)^T = B^T.A^T and Dot = MatMul(row, column) on the spec with rational entries, and emits those identities as programs; the harness compares every element of the real results." + BIG + "", "DESIGN.md 3/C04"),
 "C05": sym("TLC enumerates every shape and every dim of the grid and emits the fibre-wise definition of Sum/Max/Min/Avg/Mean/Var/Std (whole tensor and Along(dim)), result shape = operand shape without dim; the harness compares every element for assignments with ties, zeros, single-element fibres and extreme magnitudes; invalid dims must be rejected." + BIG + "", "DESIGN.md 3/C05"),
 "C06": sym("TLC enumerates Slice/Patch with every index form, block size and position, Concat, Reshape (every factorisation), Flatten/Squeeze/UnSqueeze (every dim), Broadcast targets and the constructors, checks the round-trip laws on the spec (syntactic equality), and emits the element wiring; the harness uses iota inputs, reads every tensor back through At at every multi-index and compares exactly." + BIG + "", "DESIGN.md 3/C06"),
 "C07": sym("TLC enumerates explicit Broadcast (source x target grid) and every implicitly expanding operation over all compatible ordered shape pairs with either operand tracked, and emits the gradient by differentiation of the definition (= sum over copies). The harness compares every gradient element." + BIG + "" + KF, "DESIGN.md 3/C07"),
 "C12": sym("TLC emits the statement's loss formulas (clip = max(l, min(x, u)), clipping bounds as named constants) for every batch / class size of the grid; the harness evaluates them for predictions and targets drawn from 0, 1, <0, >1, +-1e6 and within 1e-12 of both clipping bounds, tracked and untracked, and also requires a finite non-negative rank-0 result.", "DESIGN.md 3/C12"),
 "C13": sym("Expected gradients are the symbolic derivative of the loss definitions (TLC proves on rational instances that they equal 2(p-t)/N, ((1-t)/(1-p)-t/p)/N, -(t/p)/N and 0 where clipped). The prediction is a leaf, an interior tensor of a small graph, or the output of FC->activation; the gradient of the prediction and of everything upstream is compared, untracked inputs must get none." + KF, "DESIGN.md 3/C13"),
 "C14": sym("TLC emits the defining formula of each activation for every shape of the grid, every Softmax dim (and nil configs), every LeakyRelu slope, plus Softmax's sum along dim; the harness compares every element for inputs including 0, -0 and |x| up to 700 and requires Softmax >= 0; invalid dims must be rejected." + BIG + "", "DESIGN.md 3/C14"),
 "C15": sym("Expected gradients are the symbolic derivative of the activation definitions (TLC checks the Softmax closed form p_i(g_i - sum_j p_j g_j), s(1-s); Tanh as 1/cosh^2 = 1-tanh^2); input as leaf and as interior tensor; at exactly 0 Relu/LeakyRelu accept any value between the one-sided derivatives (both one-sided readings are evaluated)." + KF, "DESIGN.md 3/C15"),
 "C16": sym("TLC emits y[b][o] = W[o]*sum_d x[b][d] + B[o] and its derivatives for all batch/feature/output sizes of the grid with distinct symbols, and checks on the spec that the library's composition computes that value; the harness replaces the layer's parameters through the Weights() pointers before Forward (so a Forward not reading through them fails) and compares values and gradients; spec/FCParams.tla enumerates EVERY history of Weights() calls, replacements (through old pointers, fresh pointers, the exported field) and Forward calls up to 5 (6) actions and each Forward is replayed." + KF, "DESIGN.md 3/C16 and 7.8"),
 "C17": sym("TLC emits w - lr*g for every shape and learning rate of the grid (nil config, 0, negative), g being the derivative of the back-propagated graph; the harness calls Update through the pointer and checks the new tensor element-wise, that the pointer target was replaced, that the old tensor object, its values and its gradient are bit-for-bit unchanged, and that a tensor without gradient is rejected with nothing replaced." + BIG + "", "DESIGN.md 3/C17"),
}

MC_NOTE = ("Trusted: spec/Autograd.tla as the reading of the statement (its local VJPs and the total derivative come from symbolic differentiation of the operation definitions, not from backward rules); the verif hooks for tracked / spent flags and back-propagation events; exhaustive only within the stated bounds (tensors per history, value alphabet); larger graphs are reached by trace validation and symbolic replays, not exhaustively.")
MC_TECH = "TLA+ state machine model-checked by TLC; every transition dumped with a witness path and replayed on the real code with the full projected state compared"
CHECKS.update({
 "C01": dict(level="model_checking", design="DESIGN.md 3/C01", note=MC_NOTE, technique=MC_TECH,
   text="TLC explores the autograd state machine exhaustively within bounds - every operation DAG, tracked assignment, root, every valid order of backward-edge applications, repeated back-propagations over leaf-sharing graphs - and checks in every state that the machine's gradients equal the definitional total derivative (C01_Total) and that each edge is applied exactly once (C01_Once), over rank-0 tensors and over two small-tensor alphabets with real Jacobians; with the recorded deviation bp_edge_walk (finding D1) TLC must report C01_Total violated. The machine is bound to the code in both directions: every transition into an idle state and TLC -simulate behaviours are replayed on the real library comparing values, flags and gradients of all tensors (gradient tensors handed out earlier must stay bit-identical); pseudo-random 10-12 node DAG skeletons with doubled operands are replayed with symbolic values against the definitional gradient of every tensor; histories recorded from the real library through the hooks (and the back-propagations of the repository's own test suite, harvested with QEEP_VERIF_TRACE) are validated by TLC (Trace_Autograd / Trace_BPStruct)." + KF),
 "C08": dict(level="model_checking", design="DESIGN.md 3/C08", note=MC_NOTE, technique=MC_TECH,
   text="TLC explores all histories (within bounds) of creation, unary/binary/comparison operations, BackPropagate on any tensor and ResetGradContext(true|false) under the statement's provisos, with the tracking rule, frame (only tensors a back-propagation passes through gain a gradient, untracked roots change nothing), retirement and reset semantics as invariants; every transition is replayed on the real library comparing tracked/spent flags, gradient presence and values of all tensors, and re-run untracked to show forward values are bit-identical; the cases of the grids of C02 - C06 and C14 (every operation, shape and argument) are executed tracked and with every input untracked in worker processes and must give bit-identical tensors."),
 "C10": dict(level="model_checking", design="DESIGN.md 3/C10", note=MC_NOTE, technique=MC_TECH + "; environment action Scribble realised by really overwriting caller slices",
   text="TLC checks the frame properties of the machine (values never change, gradients only change during a back-propagation, tracking only by Reset, the environment action Scribble changes nothing the library depends on) over the operations that take or hand out caller-owned slices, with Scribble enabled between any two calls; the harness replays every transition REALLY overwriting the dimension lists, index ranges, tensor lists, nested data and Shape() results at the TLC-chosen points, compares the full state with the specification and with the run without overwriting (bit-identical). The two-back-propagation configuration of the machine is replayed with every gradient tensor handed out earlier re-read at the end; the cases of the grids of C02 - C06 and C16 (nested data of every rank, dimension lists, ranges, tensor lists of every operation) are executed once as they are and once with every slice handed to the library overwritten right after the call, and must give bit-identical tensors and gradients. Every symbolic replay of every other property additionally snapshots all tensors around every instruction, BackPropagate and Update."),
})

CHECKS.update({
 "C09": dict(level="exploration", design="DESIGN.md 3/C09", technique="TLA+ outcome function (Total.tla) evaluated by TLC over the argument grid; every call executed on the real code under recover + watchdog",
   note="Trusted: the preconditions transcribed in spec/TensorOps.tla (Pre), Components.tla (CompPre) and Total.tla from the statement and the validators' documented messages; arguments exhaustive within the stated grid (full product up to length 2, one position varied above), not beyond.",
   text="TLC evaluates the outcome function of the specification (rejected, or accepted with a shape) for ~20k calls covering every public entry point with integers in [-2,6], ranks 0..5, nil tensors / slices / configs, rectangular and ragged nested data of depth 0..4, mismatched shapes and invalid configurations; the harness performs each call on the real library under recover with a watchdog and requires no panic, no hang, an error and no result exactly when the precondition is violated, otherwise a fully readable result of the specified shape; in addition seeded random histories of calls that ignore the provisos of C08 must return without panicking, and BackPropagate over deep ladders of reconvergent stages (four stage shapes, exponentially many paths) must return within the time limit."),
 "C11": dict(level="model_checking", design="DESIGN.md 3/C11", technique="TLA+ protocol machine (Train.tla) model-checked and every transition replayed on real layers / loss / SGD; symbolic one-step maps from TLC checked along real multi-step trajectories; recorded protocols validated by TLC against the refined protocol machine (trace validation)", note=MC_NOTE,
   text="TLC explores the training-protocol machine (forward, back-propagate, Update per parameter, Reset per parameter, every way of omitting updates and resets) with exact rational weights for the piece-wise rational models and checks Descent, GradIsCurrent, StaleIsAnError, NoLeak; every transition is replayed on a real FC layer, activation, MSE and SGD comparing weights, context state, gradients and ok/error. For every model FC -> activation -> loss TLC emits the symbolic gradient of the composed definitions; the harness runs real multi-step training and checks w_{k+1} = w_k - lr*g(w_k) after every step. In the other direction, Train refines the value-free protocol machine TrainProto (checked by TLC), and random protocols of 25 (40) steps - updates and resets omitted, reordered, resets before updates - recorded from real models of 1-3 layers with any activation are validated by TLC against TrainProto (Trace_Train.tla), every event with the logged (tracked, spent, hasGrad) of every parameter and the ok/error outcome." + KF),
 "C18": dict(level="exploration", design="DESIGN.md 3/C18 and 4", technique="TLA+ parameter table evaluated by TLC; exact shape / tracking / support checks + statistical conformance monitor (8-sigma)",
   note="The distributional half (moments converge, positions independent, draws fresh) is a statistical statement: it is monitored with 8-sigma bands on 6e4 (1e6) draws, a rejection must reproduce on a doubled sample; TLC decides the shape / tracked / support / parameter-formula half only. Trusted: gonum's generator quality.",
   text="TLC emits for every initializer / random constructor, configuration (nil configs = documented defaults) and shape the expected shape, tracking and distribution parameters as terms (sqrt(6/fanIn), sqrt(6/(fanIn+fanOut)), sqrt(2/fanIn), sqrt(2/(fanIn+fanOut)), bounds, mean, sigma); the harness checks shape, tracked-leaf-ness and support of every element exactly and mean, variance, support coverage / one-sigma mass, freshness across calls, autocorrelation and position correlation statistically."),
 "C19": dict(level="model_checking", design="DESIGN.md 3/C19", technique="TLA+ counter machine model-checked (history variables make partition invariance an invariant); transitions and simulated long histories replayed on the real metric", note="Trusted: spec/Accuracy.tla; Result is the only observable of the counters; label ids are mapped to well-separated floats.",
   text="TLC explores all histories (within bounds) of accepted batches and the five kinds of rejected calls and checks that the counters equal matched/total of the CONCATENATION of the accepted batches (hence partition invariance), 0 <= correct <= total, and that rejected calls change nothing; every transition of the counter-abstracted graph and prefixes of long simulated histories are replayed on the real metric (Result must equal correct/total exactly, rejected calls leave it unchanged, three re-partitions of the same data give the same Result); every (batch size, matches) pair up to 64 (96) is replayed; Apalache discharges an inductive invariant (AccuracyInd.tla) for 0 <= correct <= total with unbounded sizes and history length."),
 "C20": dict(level="model_checking", design="DESIGN.md 3/C20 and 4", technique="TLA+ footprint model of goroutines model-checked for NoRace / Deterministic; footprints bound to the code by write-set differencing and by executing the same programs with real goroutines under Go's race detector",
   note="TLC decides race-freedom of the footprint model; that the code's accesses stay inside the footprints is established by sequential write-set differencing (writes) and by Go's race detector on the concurrently executed programs (reads and writes) - a runtime monitor inside the conformance step. Programs are the menu of the specification, not all programs.",
   text="TLC explores every Begin/End interleaving of 2 (3) goroutines running menu programs (forward chains, activation / loss evaluation, graph construction on a shared tracked parameter and a shared untracked tensor; private graphs back-propagated, reset and re-used; random constructors) under the statement's proviso and checks NoRace, Deterministic and SharedUntouched; without the proviso it must find the race. The harness checks that each call only changes tensors inside the specification's write footprint, and runs every assignment of programs to real goroutines under the race detector, comparing every result bit-for-bit with the sequential run."),
})

NOT_YET = {}

def main():
    props = [json.loads(l) for l in open('/verif/properties.jsonl')]
    checks = []
    for p in props:
        pid = p['id']
        if pid not in CHECKS:
            continue
        c = CHECKS[pid]
        checks.append({
            "property_id": pid,
            "quick_cmd": f"bin/check {pid} --tier quick",
            "thorough_cmd": f"bin/check {pid} --tier thorough",
            "evidence_file": f"/verif/evidence/{pid}.json",
            "replay_cmd_template": f"bin/check {pid} --replay {{path}}",
            "engine": "qv",
            "level_claimed": {"category": c["level"], "text": c["text"], "design_ref": c["design"]},
            "level_note": c["note"],
            "technique": c["technique"],
        })
    na = []
    for p in props:
        if p['id'] not in CHECKS:
            na.append({"property_id": p['id'], "reason": NOT_YET.get(p['id'], "check under construction in this round: the specification modules exist or are planned (DESIGN.md section 3) but no registered command decides it yet")})
    m = {
        "version": 1,
        "setup_cmd": "bin/setup",
        "hooks": {
            "guard": "verif",
            "enable": "go build -tags verif (the harness module replaces github.com/sahandsafizadeh/qeep by /repo, so every check rebuilds the library from the current working tree with the hooks on)",
            "baseline_off_cmd": "cd /repo && GOFLAGS=-mod=mod GOPROXY=off GOSUMDB=off GOTOOLCHAIN=local go test -vet=off -count=1 ./...",
            "source_commits": HOOK_COMMITS,
            "add_only": True,
        },
        "engines": [
            {"name": "qv", "path": "harness/cmd/qv", "serves_properties": sorted(CHECKS),
             "kind_free_text": "Go driver: runs TLC on spec/*.tla (generators, model checking, trace validation), replays TLC output into the real library built with -tags verif, records traces for TLC to validate, writes evidence"},
            {"name": "spec", "path": "spec", "serves_properties": sorted(CHECKS),
             "kind_free_text": "the TLA+ specification: Val (exact value algebra + symbolic differentiation), Shape, TensorOps (declarative definition of every tensor operation), Components, Prog (programs and the definition of their gradients), Emit + Gen_* (case generators), MC_* (model-checking configurations), Trace_* (trace validation)"},
        ],
        "checks": checks,
        "not_applicable": na,
        "notes": "All checks: exit 0 held / exit 1 with a VIOLATION line and a replay file / exit 2 machinery failure (never a verdict). Known findings: /verif/known_findings.json (read-only at run time).",
    }
    json.dump(m, open('/verif/MANIFEST.json', 'w'), indent=1)
    print("MANIFEST.json:", len(checks), "checks,", len(na), "not claimed")

main()
