#!/usr/bin/env python3
"""Regenerates /verif/MANIFEST.json from the table below (one entry per claimed property)."""
import json, subprocess

HOOK_COMMITS = ["1ce4350"]

CHECKS = {
 "C03": dict(
   level="exploration",
   text="Exhaustive-in-bounds conformance of the real element-wise operators and of implicit broadcasting with the declarative TLA+ definition (spec/TensorOps.tla): TLC enumerates every (operation, shape or broadcast-compatible ordered shape pair, parameter) of the grid and emits the expected shape and the term of every result element; the harness executes each case with several float64 assignments (zeros, negative zero, ties, 1e+-150) and compares every element. Shapes are exhaustive within the grid, values are sampled - the right level for a universally quantified statement about pure functions whose case analysis is over shapes.",
   design="DESIGN.md section 3, C03",
   note="Trusted: spec/Val.tla + spec/Shape.tla + spec/TensorOps.tla as the reading of the statement; the term evaluator (Go math on both sides); Shapes(4,3) U Shapes(6,2) in the thorough tier. Values sampled, not exhaustive.",
   technique="TLA+ spec evaluated by TLC as case generator (spec -> code replay), float64 conformance"),
}

NOT_YET = {}

def main():
    props = [json.loads(l) for l in open('/verif/properties.jsonl')]
    checks = []
    for p in props:
        pid = p['id']
        if pid not in CHECKS:
            continue
        c = CHECKS[pid]
        checks.append({
            "property_id": pid,
            "quick_cmd": f"bin/check {pid} --tier quick",
            "thorough_cmd": f"bin/check {pid} --tier thorough",
            "evidence_file": f"/verif/evidence/{pid}.json",
            "replay_cmd_template": f"bin/check {pid} --replay {{path}}",
            "engine": "qv",
            "level_claimed": {"category": c["level"], "text": c["text"], "design_ref": c["design"]},
            "level_note": c["note"],
            "technique": c["technique"],
        })
    na = []
    for p in props:
        if p['id'] not in CHECKS:
            na.append({"property_id": p['id'], "reason": NOT_YET.get(p['id'], "check under construction in this round: the specification modules exist or are planned (DESIGN.md section 3) but no registered command decides it yet")})
    m = {
        "version": 1,
        "setup_cmd": "bin/setup",
        "hooks": {
            "guard": "verif",
            "enable": "go build -tags verif (the harness module replaces github.com/sahandsafizadeh/qeep by /repo, so every check rebuilds the library from the current working tree with the hooks on)",
            "baseline_off_cmd": "cd /repo && GOFLAGS=-mod=mod GOPROXY=off GOSUMDB=off GOTOOLCHAIN=local go test -vet=off -count=1 ./...",
            "source_commits": HOOK_COMMITS,
            "add_only": True,
        },
        "engines": [
            {"name": "qv", "path": "harness/cmd/qv", "serves_properties": sorted(CHECKS),
             "kind_free_text": "Go driver: runs TLC on spec/*.tla (generators, model checking, trace validation), replays TLC output into the real library built with -tags verif, records traces for TLC to validate, writes evidence"},
            {"name": "spec", "path": "spec", "serves_properties": sorted(CHECKS),
             "kind_free_text": "the TLA+ specification: Val (exact value algebra + symbolic differentiation), Shape, TensorOps (declarative definition of every tensor operation), Components, Prog (programs and the definition of their gradients), Emit + Gen_* (case generators), MC_* (model-checking configurations), Trace_* (trace validation)"},
        ],
        "checks": checks,
        "not_applicable": na,
        "notes": "All checks: exit 0 held / exit 1 with a VIOLATION line and a replay file / exit 2 machinery failure (never a verdict). Known findings: /verif/known_findings.json (read-only at run time).",
    }
    json.dump(m, open('/verif/MANIFEST.json', 'w'), indent=1)
    print("MANIFEST.json:", len(checks), "checks,", len(na), "not claimed")

main()
