package run

// Worker processes.
//
// Every replay of specification cases on the real library happens in worker PROCESSES, each executing its jobs
// strictly one after the other: the library is never entered by two goroutines of the harness at the same time
// (except in the check of C20, whose subject is exactly that). A change that breaks only the concurrent use of the
// library therefore cannot surface in the checks of the sequential properties; and a library call that kills or
// hangs the process is turned into a finding with its witness instead of taking the harness down.
//
// Protocol: the parent writes one job per line to the worker's stdin; the worker answers with a sequence of Op
// lines ending in {"op":"done"}. The ops are the book-keeping calls (Count, AddInt, Violate, ...) the job would
// have made on the Ctx; the parent applies them.

import (
	"bufio"
	"encoding/json"
	"fmt"
	"io"
	"os"
	"os/exec"
	"strings"
	"sync"
	"time"
)

type Op struct {
	Op      string          `json:"op"`
	Key     string          `json:"key,omitempty"`
	NT      bool            `json:"nt,omitempty"`
	N       int             `json:"n,omitempty"`
	What    string          `json:"what,omitempty"`
	Witness json.RawMessage `json:"witness,omitempty"`
	Dev     string          `json:"dev,omitempty"`
	Val     json.RawMessage `json:"val,omitempty"`
	Msg     string          `json:"msg,omitempty"`
}

// Recorder is what a job sees instead of the Ctx.
type Recorder struct {
	w *bufio.Writer
}

func (r *Recorder) emit(o Op) {
	b, _ := json.Marshal(o)
	r.w.Write(b)
	r.w.WriteByte('\n')
}

func raw(v any) json.RawMessage {
	b, err := json.Marshal(v)
	if err != nil {
		b, _ = json.Marshal(fmt.Sprint(v))
	}
	return b
}

func (r *Recorder) Count(key string, nontrivial bool) {
	r.emit(Op{Op: "count", Key: key, NT: nontrivial})
}
func (r *Recorder) AddInt(key string, n int) { r.emit(Op{Op: "addint", Key: key, N: n}) }
func (r *Recorder) Skipped()                 { r.emit(Op{Op: "skipped"}) }
func (r *Recorder) Violate(what string, witness any) {
	r.emit(Op{Op: "violate", What: what, Witness: raw(witness)})
}

// Known: the observed behaviour equals the named recorded deviation; the parent decides whether that deviation is
// a listed finding of the property (then KNOWN-FINDING) or not (then a violation with this witness).
func (r *Recorder) Known(dev, what string, witness any) {
	r.emit(Op{Op: "known", Dev: dev, What: what, Witness: raw(witness)})
}
func (r *Recorder) Extra(key string, v any) { r.emit(Op{Op: "extra", Key: key, Val: raw(v)}) }
func (r *Recorder) Sample(v any)            { r.emit(Op{Op: "sample", Val: raw(v)}) }
func (r *Recorder) Broken(msg string)       { r.emit(Op{Op: "broken", Msg: msg}) }

// apply performs one op on the Ctx; it returns a Broken error for "broken".
func (c *Ctx) apply(o Op) error {
	switch o.Op {
	case "count":
		c.Count(o.Key, o.NT)
	case "addint":
		c.AddInt(o.Key, o.N)
	case "skipped":
		c.mu.Lock()
		c.Skipped++
		c.mu.Unlock()
	case "violate":
		c.Violate(o.What, o.Witness)
	case "known":
		if kf := c.Known(o.Dev); kf != nil && !c.AcceptRecorded {
			c.SawKnown(kf)
		} else if !c.AcceptRecorded {
			c.Violate(fmt.Sprintf("%s: the behaviour equals the deviation %q, which is not a listed finding for %s", o.What, o.Dev, c.Prop), o.Witness)
		}
	case "extra":
		var v any
		json.Unmarshal(o.Val, &v)
		c.AddExtra(o.Key, v)
	case "sample":
		var v any
		json.Unmarshal(o.Val, &v)
		c.Sample(v)
	case "broken":
		return Brokenf("%s", o.Msg)
	}
	return nil
}

// WorkerMain is the body of "qv worker <kind> ...": handle is called for every job line, sequentially.
func WorkerMain(handle func(job []byte, r *Recorder)) int {
	in := bufio.NewReaderSize(os.Stdin, 1<<20)
	out := bufio.NewWriterSize(os.Stdout, 1<<20)
	rec := &Recorder{w: out}
	for {
		line, err := in.ReadBytes('\n')
		if len(strings.TrimSpace(string(line))) > 0 {
			func() {
				defer func() {
					if p := recover(); p != nil {
						rec.Broken(fmt.Sprintf("HARNESS panic in a worker: %v", p))
					}
				}()
				handle(line, rec)
			}()
			rec.emit(Op{Op: "done"})
			out.Flush()
		}
		if err != nil {
			return 0
		}
	}
}

type worker struct {
	cmd    *exec.Cmd
	in     io.WriteCloser
	out    *bufio.Reader
	stderr *strings.Builder
}

func startWorker(args []string, env []string) (*worker, error) {
	self, err := os.Executable()
	if err != nil {
		return nil, err
	}
	cmd := exec.Command(self, append([]string{"worker"}, args...)...)
	cmd.Env = append(append(os.Environ(), "QEEP_VERIF_TRACE="), env...) // the trace-file sink belongs to dedicated subprocesses only
	in, err := cmd.StdinPipe()
	if err != nil {
		return nil, err
	}
	outp, err := cmd.StdoutPipe()
	if err != nil {
		return nil, err
	}
	sb := &strings.Builder{}
	cmd.Stderr = &tailWriter{sb: sb}
	if err := cmd.Start(); err != nil {
		return nil, err
	}
	return &worker{cmd: cmd, in: in, out: bufio.NewReaderSize(outp, 1<<20), stderr: sb}, nil
}

type tailWriter struct {
	mu sync.Mutex
	sb *strings.Builder
}

func (t *tailWriter) Write(p []byte) (int, error) {
	t.mu.Lock()
	defer t.mu.Unlock()
	if t.sb.Len() > 1<<16 {
		s := t.sb.String()
		t.sb.Reset()
		t.sb.WriteString(s[len(s)-(1<<15):])
	}
	t.sb.Write(p)
	return len(p), nil
}

func (w *worker) stop() {
	w.in.Close()
	done := make(chan struct{})
	go func() { w.cmd.Wait(); close(done) }()
	select {
	case <-done:
	case <-time.After(5 * time.Second):
		w.cmd.Process.Kill()
		<-done
	}
}

func (w *worker) kill() {
	w.cmd.Process.Kill()
	w.cmd.Wait()
}

// run1 sends one job and collects its ops. died: the process ended (or was killed after the time limit) before "done".
func (w *worker) run1(job []byte, limit time.Duration) (ops []Op, died bool, why string) {
	if _, err := w.in.Write(append(append([]byte{}, job...), '\n')); err != nil {
		return nil, true, "the worker process is gone: " + err.Error()
	}
	type res struct {
		ops  []Op
		died bool
		why  string
	}
	ch := make(chan res, 1)
	go func() {
		var ops []Op
		for {
			line, err := w.out.ReadBytes('\n')
			if len(line) > 0 {
				var o Op
				if json.Unmarshal(line, &o) == nil {
					if o.Op == "done" {
						ch <- res{ops: ops}
						return
					}
					ops = append(ops, o)
				}
			}
			if err != nil {
				ch <- res{ops: ops, died: true, why: "the process executing it died: " + Tail(w.stderr.String(), 12)}
				return
			}
		}
	}()
	select {
	case r := <-ch:
		return r.ops, r.died, r.why
	case <-time.After(limit):
		w.kill()
		<-ch
		return nil, true, fmt.Sprintf("no answer within %v (hang); the process was killed", limit)
	}
}

// Farm distributes the jobs over worker processes (each strictly sequential) and applies their ops.
// describe(job) names a job in a violation message; witness(job) is what --replay gets.
func (c *Ctx) Farm(args []string, jobs <-chan []byte, limit time.Duration, describe func([]byte) string, witness func([]byte) any) error {
	nw := 12
	if v := os.Getenv("QV_WORKERS"); v != "" {
		fmt.Sscanf(v, "%d", &nw)
	}
	var wg sync.WaitGroup
	var emu sync.Mutex
	var firstErr error
	fail := func(err error) {
		emu.Lock()
		if firstErr == nil {
			firstErr = err
		}
		emu.Unlock()
	}
	for i := 0; i < nw; i++ {
		wg.Add(1)
		go func() {
			defer wg.Done()
			var w *worker
			defer func() {
				if w != nil {
					w.stop()
				}
			}()
			for job := range jobs {
				for attempt := 0; ; attempt++ {
					if w == nil {
						var err error
						if w, err = startWorker(args, append([]string{"QV_PROP=" + c.Prop}, c.WorkerEnv...)); err != nil {
							fail(Brokenf("cannot start a worker process: %v", err))
							break
						}
					}
					ops, died, why := w.run1(job, limit)
					if !died {
						for _, o := range ops {
							if err := c.apply(o); err != nil {
								fail(err)
							}
						}
						break
					}
					w.kill()
					w = nil
					if attempt == 0 {
						continue // verdicts only from reproducible behaviour: once more in a fresh process
					}
					c.Violate(fmt.Sprintf("%s: %s", describe(job), why), witness(job))
					break
				}
			}
		}()
	}
	wg.Wait()
	return firstErr
}
