package run

import (
	"bufio"
	"encoding/json"
	"fmt"
	"os"
	"strconv"
	"strings"
	"time"

	"qeepverif/internal/beh"
)

type BehWitness struct {
	Behaviour *beh.Behaviour `json:"behaviour"`
	Detail    string         `json:"detail"`
}

// ReplayDump replays every behaviour TLC printed (lines of the form "{...}"
// produced by PrintT(ToJson(..))) and returns how many were replayed.
func (c *Ctx) ReplayDump(out string) (int, error) {
	return c.replayDumpFrom(bufio.NewScanner(strings.NewReader(out)))
}

// ReplayDumpFile streams a dump that TLC wrote to a file.
func (c *Ctx) ReplayDumpFile(path string) (int, error) {
	f, err := os.Open(path)
	if err != nil {
		return 0, Brokenf("dump file: %v", err)
	}
	defer f.Close()
	return c.replayDumpFrom(bufio.NewScanner(f))
}

func (c *Ctx) replayDumpFrom(sc *bufio.Scanner) (int, error) {
	jobs := make(chan []byte, 256)
	n := 0
	go func() {
		defer close(jobs)
		sc.Buffer(make([]byte, 1<<20), 1<<26)
		for sc.Scan() {
			line := sc.Text()
			if strings.HasPrefix(line, "\"{") {
				n++
				jobs <- []byte(line)
			}
		}
	}()
	parse := func(job []byte) *beh.Behaviour {
		s, err := strconv.Unquote(strings.TrimSpace(string(job)))
		if err != nil {
			return nil
		}
		var b beh.Behaviour
		if json.Unmarshal([]byte(s), &b) != nil {
			return nil
		}
		return &b
	}
	describe := func(job []byte) string {
		if b := parse(job); b != nil {
			return fmt.Sprintf("behaviour of %d actions", len(b.P))
		}
		return "behaviour"
	}
	witness := func(job []byte) any {
		return BehWitness{Behaviour: parse(job), Detail: "the process died or hung while replaying this behaviour"}
	}
	if err := c.Farm([]string{"beh"}, jobs, 10*time.Minute, describe, witness); err != nil {
		return n, err
	}
	return n, nil
}

// BehWorker is the body of "qv worker beh".
func BehWorker(args []string) int {
	k := 0
	return WorkerMain(func(job []byte, r *Recorder) {
		s, err := strconv.Unquote(strings.TrimSpace(string(job)))
		if err != nil {
			r.Broken(fmt.Sprintf("dump line does not unquote: %v: %.100s", err, job))
			return
		}
		var b beh.Behaviour
		if err := json.Unmarshal([]byte(s), &b); err != nil {
			r.Broken(fmt.Sprintf("dump line does not parse: %v: %.200s", err, s))
			return
		}
		d, known := beh.Replay(&b)
		if known {
			r.Known("broadcast_grad_mean", fmt.Sprintf("behaviour of %d actions", len(b.P)), BehWitness{Behaviour: &b, Detail: "matches gradA"})
		}
		k++
		if d != "" {
			if strings.HasPrefix(d, "HARNESS") {
				r.Broken(d)
				return
			}
			// verdict only from reproducible behaviour
			if d2, _ := beh.Replay(&b); d2 != "" {
				r.Violate(fmt.Sprintf("behaviour of %d actions: %s", len(b.P), d), BehWitness{Behaviour: &b, Detail: d})
			}
		}
		r.Count(structKey(&b), len(b.S) >= 2)
		if k%1801 == 1 {
			r.Sample(map[string]any{"path": b.P, "tensors_after": len(b.S)})
		}
	})
}

func structKey(b *beh.Behaviour) string {
	var sb strings.Builder
	for _, raw := range b.P {
		sb.Write(raw)
	}
	return sb.String()
}
