package run

import (
	"bufio"
	"encoding/json"
	"fmt"
	"os"
	"strconv"
	"strings"
	"sync"

	"qeepverif/internal/beh"
)

type BehWitness struct {
	Behaviour *beh.Behaviour `json:"behaviour"`
	Detail    string         `json:"detail"`
}

// ReplayDump replays every behaviour TLC printed (lines of the form "{...}"
// produced by PrintT(ToJson(..))) and returns how many were replayed.
func (c *Ctx) ReplayDump(out string) (int, error) {
	return c.replayDumpFrom(bufio.NewScanner(strings.NewReader(out)))
}

// ReplayDumpFile streams a dump that TLC wrote to a file.
func (c *Ctx) ReplayDumpFile(path string) (int, error) {
	f, err := os.Open(path)
	if err != nil {
		return 0, Brokenf("dump file: %v", err)
	}
	defer f.Close()
	return c.replayDumpFrom(bufio.NewScanner(f))
}

func (c *Ctx) replayDumpFrom(sc *bufio.Scanner) (int, error) {
	type job struct {
		line string
	}
	jobs := make(chan string, 256)
	var wg sync.WaitGroup
	var n int
	var mu sync.Mutex
	var firstErr error
	for w := 0; w < 16; w++ {
		wg.Add(1)
		go func() {
			defer wg.Done()
			for line := range jobs {
				s, err := strconv.Unquote(line)
				if err != nil {
					mu.Lock()
					if firstErr == nil {
						firstErr = Brokenf("dump line does not unquote: %v: %.100s", err, line)
					}
					mu.Unlock()
					continue
				}
				var b beh.Behaviour
				if err := json.Unmarshal([]byte(s), &b); err != nil {
					mu.Lock()
					if firstErr == nil {
						firstErr = Brokenf("dump line does not parse: %v: %.200s", err, s)
					}
					mu.Unlock()
					continue
				}
				d, known := beh.Replay(&b)
				if known && !c.AcceptRecorded {
					if kf := c.Known("broadcast_grad_mean"); kf != nil {
						c.SawKnown(kf)
					} else {
						c.Violate(fmt.Sprintf("behaviour of %d actions: a gradient equals the deviation broadcast_grad_mean, which is not a listed finding for %s", len(b.P), c.Prop), BehWitness{Behaviour: &b, Detail: "matches gradA"})
					}
				}
				mu.Lock()
				n++
				k := n
				mu.Unlock()
				if d != "" {
					if strings.HasPrefix(d, "HARNESS") {
						mu.Lock()
						if firstErr == nil {
							firstErr = Brokenf("%s", d)
						}
						mu.Unlock()
						continue
					}
					// verdict only from reproducible behaviour
					if d2, _ := beh.Replay(&b); d2 != "" {
						c.Violate(fmt.Sprintf("behaviour of %d actions: %s", len(b.P), d), BehWitness{Behaviour: &b, Detail: d})
					}
				}
				c.Count(structKey(&b), len(b.S) >= 2)
				if k%20011 == 1 {
					c.Sample(map[string]any{"path": b.P, "tensors_after": len(b.S)})
				}
			}
		}()
	}
	sc.Buffer(make([]byte, 1<<20), 1<<26)
	for sc.Scan() {
		line := sc.Text()
		if strings.HasPrefix(line, "\"{") {
			jobs <- line
		}
	}
	close(jobs)
	wg.Wait()
	if firstErr != nil {
		return n, firstErr
	}
	return n, nil
}

func structKey(b *beh.Behaviour) string {
	var sb strings.Builder
	for _, raw := range b.P {
		sb.Write(raw)
	}
	return sb.String()
}
