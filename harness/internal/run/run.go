// Package run holds what every property check shares: the scratch directory,
// invoking TLC on the specification, known findings, violation witnesses and
// the evidence file.
package run

import (
	"bufio"
	"bytes"
	"context"
	"crypto/sha1"
	"encoding/hex"
	"encoding/json"
	"fmt"
	"io"
	"os"
	"os/exec"
	"path/filepath"
	"regexp"
	"sort"
	"strconv"
	"strings"
	"sync"
	"time"
)

const TLAJars = "/opt/veriftools/tla/tla2tools.jar:/opt/veriftools/tla/CommunityModules-deps.jar"

// VerifDir is the root of the verification tree (QV_ROOT, set by bin/check from its own location; /verif by default).
var VerifDir = func() string {
	if v := os.Getenv("QV_ROOT"); v != "" {
		return v
	}
	return "/verif"
}()

var SpecDir = filepath.Join(VerifDir, "spec")

// Broken is a failure of the machinery itself (exit 2), never a violation.
type Broken struct{ Msg string }

func (b Broken) Error() string { return b.Msg }

func Brokenf(format string, a ...any) error { return Broken{fmt.Sprintf(format, a...)} }

type Ctx struct {
	// WorkerEnv: extra environment of the worker processes started from now on (QV_TWINONLY=1 ...)
	WorkerEnv []string
	Prop      string
	Tier      string
	Seed      int64
	Level     string
	Work      string
	Start     time.Time
	Thorough  bool
	// AcceptRecorded: gradient values matching the specification's prediction under the recorded
	// deviations are conformant for this property (it is not about gradient values)
	AcceptRecorded bool

	mu          sync.Mutex
	Evaluations int
	distinct    map[string]bool
	Samples     []any
	Rule        string
	Assumptions []string
	Extra       map[string]any
	States      int64
	Transitions int64
	Traces      int
	Violations  []Violation
	KnownSeen   map[string]int
	Skipped     int
}

type Violation struct {
	What   string
	Replay string
}

func NewCtx(prop, tier string, level string) (*Ctx, error) {
	seed := int64(1)
	if s := os.Getenv("VERIF_SEED"); s != "" {
		v, err := strconv.ParseInt(s, 10, 64)
		if err != nil {
			return nil, Brokenf("VERIF_SEED=%q is not an integer", s)
		}
		seed = v
	}
	work, err := os.MkdirTemp("", "qv-"+prop+"-")
	if err != nil {
		return nil, Brokenf("scratch directory: %v", err)
	}
	c := &Ctx{Prop: prop, Tier: tier, Seed: seed, Level: level, Work: work, Start: time.Now(), Thorough: tier == "thorough",
		distinct: map[string]bool{}, Extra: map[string]any{}, KnownSeen: map[string]int{}}
	return c, nil
}

func (c *Ctx) Close() { os.RemoveAll(c.Work) }

func (c *Ctx) Logf(format string, a ...any) {
	fmt.Fprintf(os.Stderr, "[%s %6.1fs] %s\n", c.Prop, time.Since(c.Start).Seconds(), fmt.Sprintf(format, a...))
}

// Count records one executed case; key identifies its structure, nontrivial
// says whether it counts towards distinct_nontrivial.
func (c *Ctx) Count(key string, nontrivial bool) {
	c.mu.Lock()
	c.Evaluations++
	if nontrivial {
		c.distinct[key] = true
	}
	c.mu.Unlock()
}

func (c *Ctx) Sample(s any) {
	c.mu.Lock()
	if len(c.Samples) < 6 {
		c.Samples = append(c.Samples, s)
	}
	c.mu.Unlock()
}

func (c *Ctx) AddExtra(k string, v any) {
	c.mu.Lock()
	c.Extra[k] = v
	c.mu.Unlock()
}

func (c *Ctx) AddInt(k string, d int) {
	c.mu.Lock()
	old, _ := c.Extra[k].(int)
	c.Extra[k] = old + d
	c.mu.Unlock()
}

/* ------------------------------ known findings --------------------------- */

type KnownFinding struct {
	Property  string `json:"property"`
	ID        string `json:"id"`
	Deviation string `json:"deviation"`
	What      string `json:"what"`
}

type knownFile struct {
	Findings []KnownFinding `json:"findings"`
	Fixed    []string       `json:"fixed"`
}

// Known returns the listed finding for (property, deviation), if any. The file
// is only ever read.
func (c *Ctx) Known(deviation string) *KnownFinding {
	b, err := os.ReadFile(filepath.Join(VerifDir, "known_findings.json"))
	if err != nil {
		return nil
	}
	var kf knownFile
	if json.Unmarshal(b, &kf) != nil {
		return nil
	}
	for i := range kf.Findings {
		f := &kf.Findings[i]
		if f.Property == c.Prop && f.Deviation == deviation {
			return f
		}
	}
	return nil
}

func (c *Ctx) SawKnown(f *KnownFinding) {
	c.mu.Lock()
	c.KnownSeen[f.ID+"\x00"+f.What]++
	c.mu.Unlock()
}

/* -------------------------------- violations ----------------------------- */

// Violate records a violation with its witness (anything JSON-serialisable
// that --replay can re-execute).
func (c *Ctx) Violate(what string, witness any) {
	c.mu.Lock()
	defer c.mu.Unlock()
	if len(c.Violations) >= 5 {
		c.Violations = append(c.Violations, Violation{What: what})
		return
	}
	b, _ := json.MarshalIndent(map[string]any{"property": c.Prop, "seed": c.Seed, "tier": c.Tier, "what": what, "witness": witness}, "", " ")
	h := sha1.Sum(b)
	dir := filepath.Join(VerifDir, "evidence", "replays")
	if d := os.Getenv("QV_EVIDENCE_DIR"); d != "" {
		dir = filepath.Join(d, "replays")
	}
	os.MkdirAll(dir, 0o755)
	path := filepath.Join(dir, c.Prop+"-"+hex.EncodeToString(h[:6])+".json")
	os.WriteFile(path, b, 0o644)
	c.Violations = append(c.Violations, Violation{What: what, Replay: path})
}

/* --------------------------------- evidence ------------------------------ */

// Finish writes the evidence file, prints the verdict lines and returns the
// process exit code.
func (c *Ctx) Finish() int {
	c.mu.Lock()
	defer c.mu.Unlock()
	cov := map[string]any{
		"evaluations":         c.Evaluations,
		"distinct_nontrivial": len(c.distinct),
		"rule":                c.Rule,
		"samples":             c.Samples,
		"skipped_assignments": c.Skipped,
	}
	if c.States > 0 {
		cov["states"] = c.States
		cov["transitions"] = c.Transitions
		cov["traces_validated_against_impl"] = c.Traces
	}
	for k, v := range c.Extra {
		cov[k] = v
	}
	known := []string{}
	for k, n := range c.KnownSeen {
		parts := strings.SplitN(k, "\x00", 2)
		known = append(known, fmt.Sprintf("%s (%d cases): %s", parts[0], n, parts[1]))
	}
	sort.Strings(known)
	if len(known) > 0 {
		cov["known_findings_witnessed"] = known
	}
	ev := map[string]any{
		"property_id": c.Prop,
		"tier":        c.Tier,
		"seed":        c.Seed,
		"level":       c.Level,
		"coverage":    cov,
		"assumptions": c.Assumptions,
		"wall_s":      time.Since(c.Start).Seconds(),
		"violations":  len(c.Violations),
	}
	b, _ := json.MarshalIndent(ev, "", " ")
	evdir := filepath.Join(VerifDir, "evidence")
	if d := os.Getenv("QV_EVIDENCE_DIR"); d != "" {
		evdir = d // used by bin/seed-run so that runs against seeded changes do not overwrite the evidence of the real tree
	}
	os.MkdirAll(evdir, 0o755)
	if err := os.WriteFile(filepath.Join(evdir, c.Prop+".json"), append(b, '\n'), 0o644); err != nil {
		fmt.Fprintf(os.Stderr, "cannot write evidence: %v\n", err)
		return 2
	}
	for k := range c.KnownSeen {
		parts := strings.SplitN(k, "\x00", 2)
		fmt.Printf("KNOWN-FINDING: property=%s %s\n", c.Prop, parts[1])
	}
	if len(c.Violations) > 0 {
		for _, v := range c.Violations {
			if v.Replay != "" {
				fmt.Printf("VIOLATION property=%s replay=%s\n", c.Prop, v.Replay)
				fmt.Printf("  %s\n", v.What)
			}
		}
		fmt.Printf("%s: %d violation(s) in %d evaluations\n", c.Prop, len(c.Violations), c.Evaluations)
		return 1
	}
	fmt.Printf("%s: ok tier=%s seed=%d evaluations=%d distinct=%d wall=%.1fs\n", c.Prop, c.Tier, c.Seed, c.Evaluations, len(c.distinct), time.Since(c.Start).Seconds())
	return 0
}

/* ------------------------------------ TLC -------------------------------- */

var specOnce sync.Once

// PrepareSpec copies the specification into the scratch directory (TLC litters
// the directory it runs in).
func (c *Ctx) PrepareSpec() error {
	ents, err := os.ReadDir(SpecDir)
	if err != nil {
		return Brokenf("spec dir: %v", err)
	}
	for _, e := range ents {
		if e.IsDir() {
			continue
		}
		if strings.HasSuffix(e.Name(), ".tla") || strings.HasSuffix(e.Name(), ".cfg") {
			b, err := os.ReadFile(filepath.Join(SpecDir, e.Name()))
			if err != nil {
				return Brokenf("spec: %v", err)
			}
			if err := os.WriteFile(filepath.Join(c.Work, e.Name()), b, 0o644); err != nil {
				return Brokenf("spec copy: %v", err)
			}
		}
	}
	return nil
}

type TLCOpts struct {
	Module   string   // e.g. "Gen_C03"
	Config   string   // cfg file name; "" = an empty one is written
	Env      []string // extra environment
	Args     []string // extra TLC arguments
	Timeout  time.Duration
	HeapMB   int
	Workers  int
	Tag      string
	Simulate bool
	retried  bool
	// StdoutFile: write TLC's output to this file instead of keeping it in memory (large dumps); Out then
	// only holds the lines that are not dump lines
	StdoutFile string
}

type TLCResult struct {
	Out         string
	Generated   int64
	Distinct    int64
	Depth       int
	ExitCode    int
	TimedOut    bool
	InvViolated bool
	Wall        time.Duration
}

var reStates = regexp.MustCompile(`(\d+) states generated, (\d+) distinct states found`)
var reDepth = regexp.MustCompile(`depth of the complete state graph search is (\d+)`)

// TLC runs one TLC process and returns its output and statistics.
func (c *Ctx) TLC(o TLCOpts) (*TLCResult, error) {
	if o.Timeout == 0 {
		o.Timeout = 10 * time.Minute
	}
	if o.HeapMB == 0 {
		o.HeapMB = 3000
	}
	if o.Workers == 0 {
		o.Workers = 1
	}
	tag := o.Tag
	if tag == "" {
		tag = o.Module
	}
	cfg := o.Config
	if cfg == "" {
		cfg = "Empty_" + tag + ".cfg"
		os.WriteFile(filepath.Join(c.Work, cfg), []byte("\n"), 0o644)
	}
	// Optional cache (QV_TLC_CACHE=<dir>, used only by bin/seed-matrix): a TLC run whose inputs are the
	// specification alone (no recorded trace) gives the same output for every code tree, so the many
	// trees of the seeded matrix share it. Registered checks never set the variable.
	ckey := c.tlcCacheKey(o, cfg)
	if ckey != "" {
		if res, ok := c.tlcCacheLoad(ckey, o); ok {
			return res, nil
		}
	}
	meta := filepath.Join(c.Work, "md-"+tag)
	args := []string{"-XX:+UseParallelGC", fmt.Sprintf("-Xmx%dm", o.HeapMB), "-Xss256m", "-cp", TLAJars, "tlc2.TLC",
		"-metadir", meta, "-workers", strconv.Itoa(o.Workers), "-config", cfg}
	args = append(args, o.Args...)
	args = append(args, o.Module+".tla")
	ctx, cancel := context.WithTimeout(context.Background(), o.Timeout)
	defer cancel()
	cmd := exec.CommandContext(ctx, "java", args...)
	cmd.Dir = c.Work
	cmd.Env = append(os.Environ(), o.Env...)
	var buf bytes.Buffer
	cmd.Stdout = &buf
	cmd.Stderr = &buf
	var outf *os.File
	if o.StdoutFile != "" {
		f, ferr := os.Create(o.StdoutFile)
		if ferr != nil {
			return nil, Brokenf("TLC output file: %v", ferr)
		}
		outf = f
		cmd.Stdout = f
	}
	start := time.Now()
	err := cmd.Run()
	if ee, ok := err.(*exec.ExitError); ok && ee.ExitCode() == -1 && ctx.Err() == nil && !o.retried {
		// killed by a signal (typically the kernel's OOM killer when several JVMs run side by side): once more, alone
		if outf != nil {
			outf.Close()
		}
		os.RemoveAll(meta)
		time.Sleep(30 * time.Second)
		o.retried = true
		return c.TLC(o)
	}
	if outf != nil {
		outf.Close()
		// keep TLC's own messages (everything that is not a dump line) for statistics and error reporting
		if f, ferr := os.Open(o.StdoutFile); ferr == nil {
			rd := bufio.NewReaderSize(f, 1<<20)
			for {
				line, rerr := rd.ReadBytes('\n')
				if len(line) > 0 && !bytes.HasPrefix(line, []byte("\"{")) {
					buf.Write(line)
				}
				if rerr != nil {
					break
				}
			}
			f.Close()
		}
	}
	res := &TLCResult{Out: buf.String(), Wall: time.Since(start)}
	os.RemoveAll(meta)
	if ctx.Err() == context.DeadlineExceeded {
		res.TimedOut = true
		return res, Brokenf("TLC %s timed out after %v", tag, o.Timeout)
	}
	if m := reStates.FindAllStringSubmatch(res.Out, -1); len(m) > 0 {
		last := m[len(m)-1]
		res.Generated, _ = strconv.ParseInt(last[1], 10, 64)
		res.Distinct, _ = strconv.ParseInt(last[2], 10, 64)
	}
	if m := reDepth.FindStringSubmatch(res.Out); m != nil {
		res.Depth, _ = strconv.Atoi(m[1])
	}
	if err != nil {
		if ee, ok := err.(*exec.ExitError); ok {
			res.ExitCode = ee.ExitCode()
		} else {
			return res, Brokenf("TLC %s could not run: %v", tag, err)
		}
	}
	res.InvViolated = strings.Contains(res.Out, "is violated") || strings.Contains(res.Out, "Invariant") && strings.Contains(res.Out, "violated")
	if ckey != "" && res.ExitCode == 0 {
		c.tlcCacheStore(ckey, o, res)
	}
	return res, nil
}

func envVal(env []string, key string) string {
	for _, e := range env {
		if strings.HasPrefix(e, key+"=") {
			return e[len(key)+1:]
		}
	}
	return ""
}

func (c *Ctx) tlcCacheKey(o TLCOpts, cfg string) string {
	dir := os.Getenv("QV_TLC_CACHE")
	if dir == "" || envVal(o.Env, "QV_TRACE") != "" {
		return ""
	}
	h := sha1.New()
	names, _ := filepath.Glob(filepath.Join(c.Work, "*.tla"))
	sort.Strings(names)
	for _, n := range names {
		b, _ := os.ReadFile(n)
		fmt.Fprintf(h, "%s %d\n", filepath.Base(n), len(b))
		h.Write(b)
	}
	b, _ := os.ReadFile(filepath.Join(c.Work, cfg))
	h.Write(b)
	fmt.Fprintf(h, "|%s|%v|", o.Module, o.Args)
	for _, e := range o.Env {
		if !strings.HasPrefix(e, "QV_OUT=") {
			fmt.Fprintf(h, "%s|", e)
		}
	}
	return filepath.Join(dir, fmt.Sprintf("%x", h.Sum(nil))[:32])
}

func copyFile(dst, src string) error {
	in, err := os.Open(src)
	if err != nil {
		return err
	}
	defer in.Close()
	out, err := os.Create(dst)
	if err != nil {
		return err
	}
	if _, err := io.Copy(out, in); err != nil {
		out.Close()
		return err
	}
	return out.Close()
}

func (c *Ctx) tlcCacheLoad(key string, o TLCOpts) (*TLCResult, bool) {
	b, err := os.ReadFile(key + ".json")
	if err != nil {
		return nil, false
	}
	res := new(TLCResult)
	if json.Unmarshal(b, res) != nil {
		return nil, false
	}
	if out := envVal(o.Env, "QV_OUT"); out != "" {
		if copyFile(out, key+".out") != nil {
			return nil, false
		}
	}
	if o.StdoutFile != "" {
		if copyFile(o.StdoutFile, key+".stdout") != nil {
			return nil, false
		}
	}
	return res, true
}

func (c *Ctx) tlcCacheStore(key string, o TLCOpts, res *TLCResult) {
	os.MkdirAll(filepath.Dir(key), 0o755)
	if out := envVal(o.Env, "QV_OUT"); out != "" {
		if copyFile(key+".out", out) != nil {
			return
		}
	}
	if o.StdoutFile != "" {
		if copyFile(key+".stdout", o.StdoutFile) != nil {
			return
		}
	}
	b, _ := json.Marshal(res)
	tmp := key + ".tmp"
	if os.WriteFile(tmp, b, 0o644) == nil {
		os.Rename(tmp, key+".json")
	}
}

// MustTLC fails (Broken) on any TLC error: parse errors, evaluation errors,
// assumption failures, invariant violations.
func (c *Ctx) MustTLC(o TLCOpts) (*TLCResult, error) {
	res, err := c.TLC(o)
	if err != nil {
		return res, err
	}
	if res.ExitCode != 0 || strings.Contains(res.Out, "Error:") {
		return res, Brokenf("TLC %s failed (exit %d):\n%s", o.Module, res.ExitCode, tail(res.Out, 40))
	}
	return res, nil
}

func tail(s string, n int) string {
	lines := strings.Split(strings.TrimRight(s, "\n"), "\n")
	if len(lines) > n {
		lines = lines[len(lines)-n:]
	}
	return strings.Join(lines, "\n")
}

func Tail(s string, n int) string { return tail(s, n) }

// Generate runs a Gen_* module in nparts parallel TLC processes and returns
// the paths of the ndjson files they wrote.
func (c *Ctx) Generate(module string, nparts int, timeout time.Duration, extraEnv ...string) ([]string, error) {
	files := make([]string, nparts)
	errs := make([]error, nparts)
	var wg sync.WaitGroup
	for p := 0; p < nparts; p++ {
		wg.Add(1)
		go func(p int) {
			defer wg.Done()
			out := filepath.Join(c.Work, fmt.Sprintf("%s-%d.ndjson", module, p))
			files[p] = out
			env := append([]string{"QV_OUT=" + out, "QV_TIER=" + c.Tier, fmt.Sprintf("QV_PART=%d", p), fmt.Sprintf("QV_NPARTS=%d", nparts),
				fmt.Sprintf("QV_SEED=%d", c.Seed%1000000)}, extraEnv...)
			_, errs[p] = c.MustTLC(TLCOpts{Module: module, Env: env, Timeout: timeout, Tag: fmt.Sprintf("%s-%d", module, p)})
		}(p)
	}
	wg.Wait()
	for _, e := range errs {
		if e != nil {
			return nil, e
		}
	}
	return files, nil
}

// GenerateSample runs only part 0 of nparts of a Gen_* module: every nparts-th case (all families are represented).
func (c *Ctx) GenerateSample(module string, nparts int, timeout time.Duration, extraEnv ...string) ([]string, error) {
	out := filepath.Join(c.Work, fmt.Sprintf("%s-sample.ndjson", module))
	env := append([]string{"QV_OUT=" + out, "QV_TIER=" + c.Tier, "QV_PART=0", fmt.Sprintf("QV_NPARTS=%d", nparts),
		fmt.Sprintf("QV_SEED=%d", c.Seed%1000000)}, extraEnv...)
	if _, err := c.MustTLC(TLCOpts{Module: module, Env: env, Timeout: timeout, Tag: module + "-sample"}); err != nil {
		return nil, err
	}
	return []string{out}, nil
}

// TwinReplay replays the cases of other properties' generators ONLY for the differential runs that belong to this
// property (sym.Run decides which by bind.Scope); comparisons with the specified values are skipped.
func (c *Ctx) TwinReplay(files []string, nAssign int) error {
	old := c.WorkerEnv
	c.WorkerEnv = append(append([]string{}, old...), "QV_TWINONLY=1")
	defer func() { c.WorkerEnv = old }()
	return c.ReplaySym(files, nAssign)
}

// ReadLines streams the lines of ndjson files.
func ReadLines(files []string, fn func(line []byte) error) error {
	for _, f := range files {
		fh, err := os.Open(f)
		if err != nil {
			return Brokenf("generated file: %v", err)
		}
		rd := bufio.NewReaderSize(fh, 1<<20)
		for {
			line, err := rd.ReadBytes('\n')
			if len(bytes.TrimSpace(line)) > 0 {
				if e := fn(line); e != nil {
					fh.Close()
					return e
				}
			}
			if err == io.EOF {
				break
			}
			if err != nil {
				fh.Close()
				return Brokenf("reading %s: %v", f, err)
			}
		}
		fh.Close()
	}
	return nil
}

// Guard runs f and turns a panic (of the library under test, reached through f) into a description,
// so that it is reported as a violation with its witness instead of crashing the harness.
func Guard(f func() string) (detail string) {
	defer func() {
		if r := recover(); r != nil {
			detail = fmt.Sprintf("panic: %v", r)
		}
	}()
	return f()
}
