package run

import (
	"bufio"
	"encoding/json"
	"fmt"
	"os"
	"os/exec"
	"path/filepath"
	"regexp"
	"strconv"
	"strings"
	"time"

	"qeepverif/internal/drive"
)

type TraceWitness struct {
	TraceSeed  int64       `json:"trace_seed"`
	Opts       drive.Opts  `json:"opts"`
	EventIndex int         `json:"event_index"`
	Event      drive.Event `json:"event"`
	Explain    string      `json:"explain"`
}

var reRejected = regexp.MustCompile(`"TRACE-REJECTED-AT", (\d+)`)

func writeTrace(path string, hs []*drive.History) (int, error) {
	f, err := os.Create(path)
	if err != nil {
		return 0, err
	}
	defer f.Close()
	w := bufio.NewWriter(f)
	n := 0
	for _, h := range hs {
		for _, e := range h.Events {
			b, err := json.Marshal(e)
			if err != nil {
				return 0, err
			}
			w.Write(b)
			w.WriteByte('\n')
			n++
		}
	}
	return n, w.Flush()
}

// tlcTrace validates one trace file; returns -1 if accepted, else the 1-based
// index of the first event TLC could not match.
func (c *Ctx) tlcTrace(file, tag string, timeout time.Duration) (int, *TLCResult, error) {
	res, err := c.TLC(TLCOpts{Module: "Trace_Autograd", Config: "Trace_Autograd.cfg", Workers: 1, HeapMB: 8000, Timeout: timeout,
		Env: []string{"QV_TRACE=" + file}, Tag: tag})
	if err != nil {
		return 0, res, err
	}
	if m := reRejected.FindStringSubmatch(res.Out); m != nil {
		n, _ := strconv.Atoi(m[1])
		return n, res, nil
	}
	if res.ExitCode != 0 || strings.Contains(res.Out, "Error:") {
		return 0, res, Brokenf("TLC trace validation failed unexpectedly:\n%s", Tail(res.Out, 40))
	}
	return -1, res, nil
}

// ValidateTraces records n seeded histories from the real library and has TLC
// validate them against the Autograd machine.
func (c *Ctx) ValidateTraces(n int, o drive.Opts, label string) error {
	var hs []*drive.History
	var seeds []int64
	discarded := 0
	events := 0
	bps := 0
	for i := 0; len(hs) < n && i < 3*n; i++ {
		seed := c.Seed*1000003 + int64(i) + int64(len(label))*7919
		h := drive.Run(seed, o)
		if h.Discarded != "" {
			if strings.HasPrefix(h.Discarded, "BackPropagate failed") || strings.HasPrefix(h.Discarded, "op ") || strings.HasPrefix(h.Discarded, "edge event") {
				// the real code rejected a call the driver considers valid, or broke the event protocol
				again := drive.Run(seed, o)
				if again.Discarded == h.Discarded {
					c.Violate(fmt.Sprintf("history %s seed %d: %s", label, seed, h.Discarded), TraceWitness{TraceSeed: seed, Opts: o, Explain: h.Discarded})
				}
			}
			discarded++
			continue
		}
		hs = append(hs, h)
		seeds = append(seeds, seed)
		events += len(h.Events)
		bps += h.BPs
	}
	if len(hs) == 0 {
		return Brokenf("the trace driver produced no usable history (%d discarded)", discarded)
	}
	// binding drills (QV_DRILL): corrupt what was recorded and expect a rejection
	switch os.Getenv("QV_DRILL") {
	case "corrupt-grad":
		for _, h := range hs {
			for _, e := range h.Events {
				if g, ok := e["g"].([]int); ok && len(g) > 0 {
					g[0]++
					goto drilled
				}
			}
		}
	case "drop-apply":
		for _, h := range hs {
			for i, e := range h.Events {
				if e["ev"] == "apply" {
					h.Events = append(h.Events[:i:i], h.Events[i+1:]...)
					goto drilled
				}
			}
		}
	case "corrupt-value":
		for _, h := range hs {
			for _, e := range h.Events {
				if d, ok := e["data"].([]int); ok && len(d) > 0 && e["ev"] == "op" {
					d[len(d)-1] += 2
					goto drilled
				}
			}
		}
	case "flip-flag":
		for _, h := range hs {
			for _, e := range h.Events {
				if e["ev"] == "op" {
					e["tracked"] = !(e["tracked"].(bool))
					goto drilled
				}
			}
		}
	}
drilled:
	file := filepath.Join(c.Work, "trace-"+label+".ndjson")
	if _, err := writeTrace(file, hs); err != nil {
		return Brokenf("writing trace: %v", err)
	}
	c.Logf("TLC validating %d recorded histories (%d events, %d back-propagations) against the Autograd machine", len(hs), events, bps)
	at, res, err := c.tlcTrace(file, "trace-"+label, 30*time.Minute)
	if err != nil {
		return err
	}
	c.AddInt("trace_events_validated", events)
	c.AddInt("traces_recorded_from_impl", len(hs))
	c.AddInt("trace_backpropagations", bps)
	c.AddInt("traces_discarded_unrepresentable", discarded)
	c.Traces += len(hs)
	if at < 0 {
		c.States += res.Distinct
		c.Transitions += res.Generated
		for i := 0; i < len(hs) && i < 2; i++ {
			ev := hs[i].Events
			if len(ev) > 12 {
				ev = ev[:12]
			}
			c.Sample(map[string]any{"recorded_history_prefix": ev})
		}
		for _, h := range hs {
			c.Count(fmt.Sprintf("%s-%d-%d", label, len(h.Events), h.Nodes), h.BPs > 0)
		}
		return nil
	}
	// rejected: locate the history, re-record it (determinism), validate it alone, then report
	idx := at
	k := 0
	for k < len(hs) && idx > len(hs[k].Events) {
		idx -= len(hs[k].Events)
		k++
	}
	if k >= len(hs) {
		return Brokenf("TLC rejected at event %d beyond the trace", at)
	}
	again := drive.Run(seeds[k], o)
	b1, _ := json.Marshal(hs[k].Events)
	b2, _ := json.Marshal(again.Events)
	if string(b1) != string(b2) {
		// The same calls give another recording the second time: the library carries state from one history into the
		// next. Both recordings are real behaviours; the verdict comes from the second one as well.
		single := filepath.Join(c.Work, "trace-second.ndjson")
		writeTrace(single, []*drive.History{again})
		at2, _, err := c.tlcTrace(single, "trace-second", 10*time.Minute)
		if err != nil {
			return err
		}
		if at2 < 0 {
			return Brokenf("history with seed %d is not reproducible (and its second recording is accepted); cannot turn the rejection into a verdict", seeds[k])
		}
		ev := again.Events[at2-1]
		evj, _ := json.Marshal(ev)
		c.Violate(fmt.Sprintf("recorded history (seed %d) is not a behaviour of the specification, and repeating the same calls in the same process gives ANOTHER recording (state carried across histories), rejected as well: event %d %s has no matching transition", seeds[k], at2, evj),
			TraceWitness{TraceSeed: seeds[k], Opts: o, EventIndex: at2, Event: ev, Explain: "both recordings of the same call sequence are rejected by the Autograd machine"})
		return nil
	}
	single := filepath.Join(c.Work, "trace-single.ndjson")
	writeTrace(single, []*drive.History{again})
	at2, _, err := c.tlcTrace(single, "trace-single", 10*time.Minute)
	if err != nil {
		return err
	}
	if at2 < 0 {
		return Brokenf("history with seed %d was rejected in the batch but accepted alone", seeds[k])
	}
	ev := again.Events[at2-1]
	evj, _ := json.Marshal(ev)
	c.Violate(fmt.Sprintf("recorded history (seed %d) is not a behaviour of the specification: event %d %s has no matching transition", seeds[k], at2, evj),
		TraceWitness{TraceSeed: seeds[k], Opts: o, EventIndex: at2, Event: ev, Explain: "the real library produced this event after the preceding ones; the Autograd machine has no transition with these arguments and results"})
	return nil
}

// ReplayTraceWitness re-records the history and validates it again.
func (c *Ctx) ReplayTraceWitness(w *TraceWitness) (bool, string, error) {
	h := drive.Run(w.TraceSeed, w.Opts)
	if h.Discarded != "" {
		return w.Explain == h.Discarded, h.Discarded, nil
	}
	single := filepath.Join(c.Work, "trace-replay.ndjson")
	writeTrace(single, []*drive.History{h})
	at, _, err := c.tlcTrace(single, "trace-replay", 10*time.Minute)
	if err != nil {
		return false, "", err
	}
	if at < 0 {
		return false, "accepted", nil
	}
	evj, _ := json.Marshal(h.Events[at-1])
	return true, fmt.Sprintf("event %d %s has no matching transition", at, evj), nil
}

// HarvestRepoTests runs the repository's own test suite with the verif hooks on and the trace-file sink enabled,
// and has TLC validate the structure of every back-propagation the tests performed (Trace_BPStruct.tla).
func (c *Ctx) HarvestRepoTests() error {
	repo := os.Getenv("QV_REPO")
	if repo == "" {
		repo = "/repo"
	}
	record := func(tag string) (string, int, int, error) {
		dir := filepath.Join(c.Work, "harvest-"+tag)
		os.MkdirAll(dir, 0o755)
		cmd := exec.Command("go", "test", "-tags", "verif", "-vet=off", "-count=1", "./...")
		cmd.Dir = repo
		cmd.Env = append(os.Environ(), "QEEP_VERIF_TRACE="+dir)
		out, err := cmd.CombinedOutput()
		if err != nil {
			return "", 0, 0, Brokenf("the repository's suite does not pass with -tags verif:\n%s", Tail(string(out), 30))
		}
		files, _ := filepath.Glob(filepath.Join(dir, "*.ndjson"))
		all := filepath.Join(c.Work, "harvest-"+tag+".ndjson")
		w, err := os.Create(all)
		if err != nil {
			return "", 0, 0, Brokenf("%v", err)
		}
		events, bps := 0, 0
		for _, f := range files {
			b, _ := os.ReadFile(f)
			w.Write(b)
			events += strings.Count(string(b), "\n")
			bps += strings.Count(string(b), "\"ev\":\"begin\"")
		}
		w.Close()
		return all, events, bps, nil
	}
	validate := func(file, tag string) (int, error) {
		res, err := c.TLC(TLCOpts{Module: "Trace_BPStruct", Config: "Trace_BPStruct.cfg", Workers: 1, Timeout: 10 * time.Minute, Env: []string{"QV_TRACE=" + file}, Tag: tag})
		if err != nil {
			return 0, err
		}
		if m := reRejected.FindStringSubmatch(res.Out); m != nil {
			n, _ := strconv.Atoi(m[1])
			return n, nil
		}
		if res.ExitCode != 0 || strings.Contains(res.Out, "Error:") {
			return 0, Brokenf("TLC structural trace validation failed unexpectedly:\n%s", Tail(res.Out, 30))
		}
		return -1, nil
	}
	file, events, bps, err := record("a")
	if err != nil {
		return err
	}
	if bps == 0 {
		return Brokenf("the repository's tests recorded no back-propagation (hook or sink missing?)")
	}
	c.Logf("TLC validating the %d back-propagations (%d events) the repository's own tests performed", bps, events)
	at, err := validate(file, "harvest-a")
	if err != nil {
		return err
	}
	if at >= 0 {
		file2, _, _, err := record("b")
		if err != nil {
			return err
		}
		at2, err := validate(file2, "harvest-b")
		if err != nil {
			return err
		}
		if at2 >= 0 {
			b, _ := os.ReadFile(file2)
			lines := strings.Split(string(b), "\n")
			ev := ""
			if at2-1 < len(lines) {
				ev = lines[at2-1]
			}
			c.Violate(fmt.Sprintf("a back-propagation performed by the repository's own tests is not a behaviour of the specification: event %d %s", at2, ev),
				map[string]any{"harvest": true, "event_index": at2, "event": ev})
		}
		return nil
	}
	c.Traces += bps
	c.AddExtra("repo_tests_harvested", fmt.Sprintf("%d back-propagations / %d events recorded from the repository's own test suite (-tags verif, QEEP_VERIF_TRACE) and validated by TLC against Trace_BPStruct", bps, events))
	return nil
}
