package run

import (
	"encoding/json"
	"fmt"
	"math/rand"
	"sync"

	"qeepverif/internal/sym"
	"qeepverif/internal/term"
)

// SymWitness is the replayable record of one executed symbolic case.
type SymWitness struct {
	Case   *sym.Case `json:"case"`
	Assign term.Env  `json:"assign"`
	Detail string    `json:"detail"`
}

// ReplaySym executes every generated case with nAssign assignments of its
// symbols on the real library, in parallel, and classifies the outcomes.
func (c *Ctx) ReplaySym(files []string, nAssign int) error {
	type job struct {
		idx  int
		line []byte
	}
	jobs := make(chan job, 64)
	var wg sync.WaitGroup
	var firstErr error
	var emu sync.Mutex
	for w := 0; w < 16; w++ {
		wg.Add(1)
		go func() {
			defer wg.Done()
			for j := range jobs {
				var cs sym.Case
				if err := json.Unmarshal(j.line, &cs); err != nil {
					emu.Lock()
					if firstErr == nil {
						firstErr = Brokenf("generated case %d does not parse: %v", j.idx, err)
					}
					emu.Unlock()
					continue
				}
				c.runSymCase(&cs, j.idx, nAssign)
			}
		}()
	}
	idx := 0
	err := ReadLines(files, func(line []byte) error {
		cp := append([]byte(nil), line...)
		jobs <- job{idx, cp}
		idx++
		return nil
	})
	close(jobs)
	wg.Wait()
	if err != nil {
		return err
	}
	if firstErr != nil {
		return firstErr
	}
	if idx == 0 {
		return Brokenf("the generator produced no cases")
	}
	c.AddInt("cases_generated_by_tlc", idx)
	return nil
}

func (c *Ctx) runSymCase(cs *sym.Case, idx, nAssign int) {
	rng := rand.New(rand.NewSource(c.Seed*1000003 + int64(idx)))
	key := cs.Key()
	n := nAssign
	if !cs.Ok {
		n = 1
	}
	for a := 0; a < n; a++ {
		env := sym.Assign(cs, rng, a)
		res := sym.Run(cs, env)
		switch res.Verdict {
		case sym.Skipped:
			c.mu.Lock()
			c.Skipped++
			c.mu.Unlock()
			continue
		case sym.Pass:
			c.Count(key, !cs.Trivial())
			c.AddInt("element_comparisons", res.Checked)
		case sym.Known:
			c.Count(key, !cs.Trivial())
			kf := c.Known(res.Deviation)
			if kf == nil {
				c.Violate(fmt.Sprintf("%s %s: gradient equals the deviation %q, which is not a listed finding for %s", cs.Fam, cs.Name, res.Deviation, c.Prop),
					SymWitness{Case: cs, Assign: env, Detail: res.Detail})
				return
			}
			c.SawKnown(kf)
		case sym.Violation:
			// verdicts only from reproducible real-code behaviour: run it once more
			again := sym.Run(cs, env)
			if again.Verdict != sym.Violation {
				c.mu.Lock()
				c.Extra["unreproduced"] = fmt.Sprintf("%s: %s", cs.Name, res.Detail)
				c.mu.Unlock()
				continue
			}
			c.Count(key, !cs.Trivial())
			c.Violate(fmt.Sprintf("%s %s: %s", cs.Fam, cs.Name, res.Detail), SymWitness{Case: cs, Assign: env, Detail: res.Detail})
			return
		}
		if a == 0 && idx%97 == 0 {
			c.Sample(map[string]any{"case": cs.Name, "inputs": cs.Inputs, "code": cs.Code, "ok": cs.Ok, "root": cs.Root})
		}
	}
}

// ReplaySymWitness re-executes a recorded witness (bin/check --replay).
func ReplaySymWitness(w *SymWitness) sym.Result {
	return sym.Run(w.Case, w.Assign)
}
