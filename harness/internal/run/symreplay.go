package run

import (
	"encoding/json"
	"fmt"
	"math/rand"
	"os"
	"os/exec"
	"path/filepath"
	"strconv"
	"strings"
	"time"

	"qeepverif/internal/sym"
	"qeepverif/internal/term"
)

// SymWitness is the replayable record of one executed symbolic case.
type SymWitness struct {
	Case   *sym.Case `json:"case"`
	Assign term.Env  `json:"assign"`
	Detail string    `json:"detail"`
}

// ReplaySym executes every generated case with nAssign assignments of its symbols on the real library - in worker
// processes, each strictly sequential (farm.go) - and classifies the outcomes.
func (c *Ctx) ReplaySym(files []string, nAssign int) error {
	jobs := make(chan []byte, 64)
	idx := 0
	var rerr error
	go func() {
		defer close(jobs)
		rerr = ReadLines(files, func(line []byte) error {
			j, _ := json.Marshal(symJob{Idx: idx, N: nAssign, Case: append([]byte(nil), line...)})
			jobs <- j
			idx++
			return nil
		})
	}()
	describe := func(job []byte) string {
		var j symJob
		var cs sym.Case
		json.Unmarshal(job, &j)
		json.Unmarshal(j.Case, &cs)
		return fmt.Sprintf("%s %s (case %d)", cs.Fam, cs.Name, j.Idx)
	}
	witness := func(job []byte) any {
		var j symJob
		json.Unmarshal(job, &j)
		var cs sym.Case
		json.Unmarshal(j.Case, &cs)
		env := sym.Assign(&cs, rand.New(rand.NewSource(c.Seed*1000003+int64(j.Idx))), 0)
		return SymWitness{Case: &cs, Assign: env, Detail: "the process died or hung while executing this case (first assignment shown)"}
	}
	err := c.Farm([]string{"sym", fmt.Sprint(c.Seed)}, jobs, 10*time.Minute, describe, witness)
	if err != nil {
		return err
	}
	if rerr != nil {
		return rerr
	}
	if idx == 0 {
		return Brokenf("the generator produced no cases")
	}
	c.AddInt("cases_generated_by_tlc", idx)
	return nil
}

type symJob struct {
	Idx  int             `json:"idx"`
	N    int             `json:"n"`
	Case json.RawMessage `json:"case"`
}

// SymWorker is the body of "qv worker sym <seed>".
func SymWorker(args []string) int {
	var seed int64
	if len(args) > 0 {
		fmt.Sscanf(args[0], "%d", &seed)
	}
	sym.InstallGradMagSink()
	return WorkerMain(func(job []byte, r *Recorder) {
		var j symJob
		if err := json.Unmarshal(job, &j); err != nil {
			r.Broken(fmt.Sprintf("job does not parse: %v", err))
			return
		}
		var cs sym.Case
		if err := json.Unmarshal(j.Case, &cs); err != nil {
			r.Broken(fmt.Sprintf("generated case %d does not parse: %v", j.Idx, err))
			return
		}
		runSymCase(r, seed, &cs, j.Idx, j.N)
	})
}

func runSymCase(c *Recorder, seed int64, cs *sym.Case, idx, nAssign int) {
	rng := rand.New(rand.NewSource(seed*1000003 + int64(idx)))
	key := cs.Key()
	n := nAssign
	if !cs.Ok {
		n = 1
	}
	for a := 0; a < n; a++ {
		env := sym.Assign(cs, rng, a)
		res := sym.Run(cs, env)
		switch res.Verdict {
		case sym.Skipped:
			c.Skipped()
			continue
		case sym.Pass:
			c.Count(key, !cs.Trivial())
			c.AddInt("element_comparisons", res.Checked)
		case sym.Known:
			c.Count(key, !cs.Trivial())
			c.Known(res.Deviation, fmt.Sprintf("%s %s", cs.Fam, cs.Name), SymWitness{Case: cs, Assign: env, Detail: res.Detail})
		case sym.Violation:
			// verdicts only from reproducible real-code behaviour: run it once more
			again := sym.Run(cs, env)
			if again.Verdict != sym.Violation {
				c.Extra("unreproduced", fmt.Sprintf("%s: %s", cs.Name, res.Detail))
				continue
			}
			c.Count(key, !cs.Trivial())
			c.Violate(fmt.Sprintf("%s %s: %s", cs.Fam, cs.Name, res.Detail), SymWitness{Case: cs, Assign: env, Detail: res.Detail})
			return
		}
		if a == 0 && idx%97 == 0 {
			c.Sample(map[string]any{"case": cs.Name, "inputs": cs.Inputs, "code": cs.Code, "ok": cs.Ok, "root": cs.Root})
		}
	}
}

// ReplaySymWitness re-executes a recorded witness (bin/check --replay).
func ReplaySymWitness(w *SymWitness) sym.Result {
	sym.InstallGradMagSink()
	defer sym.RemoveGradMagSink()
	return sym.Run(w.Case, w.Assign)
}

// SymBPSubprocess is the body of "qv symbp <files...>": every case with a root is executed once (assignment 0,
// plain run) and back-propagated. With QEEP_VERIF_TRACE set the library's own file sink records every one of them.
func SymBPSubprocess(files []string) int {
	n := 0
	err := ReadLines(files, func(line []byte) error {
		var cs sym.Case
		if err := json.Unmarshal(line, &cs); err != nil {
			return err
		}
		if cs.Root == 0 || !cs.Ok || cs.Tmpl() {
			return nil
		}
		env := sym.Assign(&cs, rand.New(rand.NewSource(int64(n)+1)), 0)
		sym.ExecBP(&cs, env) // failures are the business of the replay, not of the harvest
		n++
		return nil
	})
	if err != nil {
		fmt.Println("SYMBP-ERROR", err)
		return 2
	}
	fmt.Println("SYMBP-DONE", n)
	return 0
}

// HarvestSymBP has a subprocess perform the back-propagation of every generated case with the library's trace-file
// sink on, and TLC validate each of them against the back-propagation protocol of the machine (Trace_BPStruct.tla):
// every backward edge applied exactly once, no edge before its consumer's gradient is complete, skipped exactly when
// the target is untracked.
func (c *Ctx) HarvestSymBP(files []string) error {
	self, err := os.Executable()
	if err != nil {
		return Brokenf("%v", err)
	}
	record := func(tag string) (string, int, int, error) {
		dir := filepath.Join(c.Work, "symbp-"+tag)
		os.MkdirAll(dir, 0o755)
		cmd := exec.Command(self, append([]string{"symbp"}, files...)...)
		cmd.Env = append(os.Environ(), "QEEP_VERIF_TRACE="+dir)
		out, err := cmd.CombinedOutput()
		if err != nil || !strings.Contains(string(out), "SYMBP-DONE") {
			return "", 0, 0, Brokenf("trace-harvesting subprocess failed: %v\n%s", err, Tail(string(out), 10))
		}
		fs, _ := filepath.Glob(filepath.Join(dir, "*.ndjson"))
		if len(fs) == 0 {
			return "", 0, 0, nil
		}
		b, _ := os.ReadFile(fs[0])
		return fs[0], strings.Count(string(b), "\n"), strings.Count(string(b), "\"ev\":\"begin\""), nil
	}
	validate := func(file, tag string) (int, error) {
		res, err := c.TLC(TLCOpts{Module: "Trace_BPStruct", Config: "Trace_BPStruct.cfg", Workers: 1, HeapMB: 6000, Timeout: 20 * time.Minute, Env: []string{"QV_TRACE=" + file}, Tag: tag})
		if err != nil {
			return 0, err
		}
		if m := reRejected.FindStringSubmatch(res.Out); m != nil {
			n, _ := strconv.Atoi(m[1])
			return n, nil
		}
		if res.ExitCode != 0 || strings.Contains(res.Out, "Error:") {
			return 0, Brokenf("TLC structural trace validation failed unexpectedly:\n%s", Tail(res.Out, 30))
		}
		return -1, nil
	}
	file, events, bps, err := record("a")
	if err != nil {
		return err
	}
	if bps == 0 {
		return nil
	}
	c.Logf("TLC validating the structure of %d recorded back-propagations (%d events)", bps, events)
	at, err := validate(file, "symbp-a")
	if err != nil {
		return err
	}
	if at >= 0 {
		file2, _, _, err := record("b")
		if err != nil {
			return err
		}
		at2, err := validate(file2, "symbp-b")
		if err != nil {
			return err
		}
		if at2 >= 0 {
			b, _ := os.ReadFile(file2)
			lines := strings.Split(string(b), "\n")
			ev, begin := "", ""
			if at2-1 < len(lines) {
				ev = lines[at2-1]
			}
			for i := at2 - 1; i >= 0 && i < len(lines); i-- {
				if strings.Contains(lines[i], "\"ev\":\"begin\"") {
					begin = lines[i]
					break
				}
			}
			c.Violate(fmt.Sprintf("a recorded back-propagation is not a behaviour of the specification (an edge applied twice, before its consumer was complete, or missing): event %d %s", at2, ev),
				map[string]any{"symbp": true, "event_index": at2, "event": ev, "graph": begin})
		}
		return nil
	}
	c.Traces += bps
	c.AddExtra("recorded_backpropagations_validated", fmt.Sprintf("%d back-propagations (%d events) of the generated cases recorded through the library's trace sink and accepted by TLC (Trace_BPStruct)", bps, events))
	return nil
}
