// Package drive runs seeded random programs against the real library with the
// verif hooks on and records one event per public call and per internal
// back-propagation step, for TLC to validate against spec/Trace_Autograd.tla.
//
// The driver keeps its own shadow of the tracking flags only to honour the
// provisos of the properties (single-use graphs, no reset under a live graph);
// it is not an oracle: everything that is logged comes from the real code.
package drive

import (
	"fmt"
	"math"
	"math/rand"

	"qeepverif/internal/bind"

	"github.com/sahandsafizadeh/qeep/tensor"
)

type Event map[string]any

type node struct {
	t       tensor.Tensor
	dims    []int
	tracked bool
	spent   bool
	wired   bool
	args    []int // 1-based ids
}

type Opts struct {
	Steps    int
	MaxNodes int
	Resets   bool
	MaxBPs   int
	ValueCap float64
	Fanout   bool // bias towards re-using recent results (reconvergence)
	// NoProvisos: ignore the provisos of C08 (re-back-propagate used graphs, reset anything). Such histories are not
	// behaviours of the machine and are not validated; they only have to return without panicking (C09).
	NoProvisos bool
}

type History struct {
	Events    []Event
	Discarded string // non-empty: the history cannot be represented for TLC (reason)
	BPs       int
	Nodes     int
}

var leafShapes = [][]int{{2}, {3}, {1, 2}, {2, 2}, {2, 3}, {3, 2}, {2, 1, 2}, {}}

func ints(flat []float64) ([]int, bool) {
	out := make([]int, len(flat))
	for i, v := range flat {
		if v != math.Trunc(v) || math.Abs(v) > 1e6 {
			return nil, false
		}
		out[i] = int(v)
	}
	return out, true
}

func parJSON(p bind.Par) map[string]any {
	k := 0
	if p.K != nil {
		k = int(p.K.N)
	}
	shape := p.Shape
	if shape == nil {
		shape = []int{}
	}
	index := [][]int{}
	for _, r := range p.Index {
		index = append(index, []int{r[0], r[1]})
	}
	return map[string]any{"k": k, "dim": p.Dim, "shape": shape, "index": index}
}

type driver struct {
	rng   *rand.Rand
	o     Opts
	nodes []*node
	ev    []Event
	ctxID map[any]int
	bad   string
}

func (d *driver) id(t tensor.Tensor) int {
	return d.ctxID[tensor.VerifContext(t)]
}

func (d *driver) add(n *node) int {
	d.nodes = append(d.nodes, n)
	d.ctxID[tensor.VerifContext(n.t)] = len(d.nodes)
	return len(d.nodes)
}

func (d *driver) reach(r int, into map[int]bool) {
	n := d.nodes[r-1]
	if !n.tracked || into[r] {
		return
	}
	into[r] = true
	if n.wired {
		for _, a := range n.args {
			d.reach(a, into)
		}
	}
}

func (d *driver) ancestors(z int, into map[int]bool) {
	if into[z] {
		return
	}
	into[z] = true
	if d.nodes[z-1].wired {
		for _, a := range d.nodes[z-1].args {
			d.ancestors(a, into)
		}
	}
}

func eq(a, b []int) bool {
	if len(a) != len(b) {
		return false
	}
	for i := range a {
		if a[i] != b[i] {
			return false
		}
	}
	return true
}

func (d *driver) pick() int {
	n := len(d.nodes)
	if d.o.Fanout && d.rng.Intn(2) == 0 && n > 2 {
		return n - d.rng.Intn(3)
	}
	return 1 + d.rng.Intn(n)
}

// Run produces one history.
func Run(seed int64, o Opts) *History {
	d := &driver{rng: rand.New(rand.NewSource(seed)), o: o, ctxID: map[any]int{}}
	bps := 0
	for step := 0; step < o.Steps && d.bad == ""; step++ {
		if len(d.nodes) < 2 || (len(d.nodes) < o.MaxNodes && d.rng.Intn(7) == 0) {
			d.create()
			continue
		}
		switch r := d.rng.Intn(20); {
		case r < 13 && len(d.nodes) < o.MaxNodes:
			d.op()
		case r < 16 && bps < o.MaxBPs:
			if d.backprop() {
				bps++
			}
		case r < 18 && o.Resets:
			d.reset()
		case len(d.nodes) < o.MaxNodes:
			d.op()
		}
	}
	// always finish with a back-propagation from the most recent tracked tensor, if the provisos allow
	if d.bad == "" && bps < o.MaxBPs+1 {
		for r := len(d.nodes); r >= 1; r-- {
			if d.nodes[r-1].tracked && d.bpOK(r) {
				d.backpropFrom(r)
				bps++
				break
			}
		}
	}
	d.ev = append(d.ev, Event{"ev": "end"})
	return &History{Events: d.ev, Discarded: d.bad, BPs: bps, Nodes: len(d.nodes)}
}

func (d *driver) create() {
	dims := leafShapes[d.rng.Intn(len(leafShapes))]
	flat := make([]float64, bind.Prod(dims))
	for i := range flat {
		flat[i] = float64(d.rng.Intn(5) - 2)
	}
	tracked := d.rng.Intn(4) != 0
	t, err := bind.New(dims, flat, tracked)
	if err != nil {
		d.bad = "create: " + err.Error()
		return
	}
	id := d.add(&node{t: t, dims: dims, tracked: tracked})
	data, _ := ints(flat)
	d.ev = append(d.ev, Event{"ev": "create", "id": id, "dims": dims, "data": data, "tracked": tracked})
}

func (d *driver) op() {
	a := d.pick()
	na := d.nodes[a-1]
	var op string
	var par bind.Par
	args := []int{a}
	rank := len(na.dims)
	kind := d.rng.Intn(16)
	switch {
	case kind == 0:
		op, par.K = "scale", &bind.Rat{N: int64([]int{2, -1, 3}[d.rng.Intn(3)]), D: 1}
	case kind == 1:
		op, par.K = "pow", &bind.Rat{N: 2, D: 1}
	case kind == 2 && rank >= 1:
		op, par.Dim = "sumalong", d.rng.Intn(rank)
	case kind == 3 && rank >= 2:
		op = "transpose"
	case kind == 4 && rank >= 1:
		op = "slice"
		for i := 0; i < 1+d.rng.Intn(rank); i++ {
			f := d.rng.Intn(na.dims[i])
			t := f + 1 + d.rng.Intn(na.dims[i]-f)
			if d.rng.Intn(4) == 0 {
				f, t = 0, 0
			}
			par.Index = append(par.Index, [2]int{f, t})
		}
	case kind == 5:
		op, par.Dim = "unsqueeze", d.rng.Intn(rank+1)
	case kind == 6 && rank >= 1:
		op, par.Dim = "flatten", d.rng.Intn(rank)
	case kind == 7:
		op, par.Shape = "reshape", []int{bind.Prod(na.dims)}
	default:
		// binary
		b := d.pick()
		if d.rng.Intn(5) == 0 {
			b = a // the same tensor in both operand slots
		}
		nb := d.nodes[b-1]
		args = []int{a, b}
		switch k2 := d.rng.Intn(9); {
		case k2 == 8:
			op = "patch"
			if rank == 0 || !eq(na.dims, nb.dims) {
				return
			}
			par.Index = [][2]int{{0, na.dims[0]}}
		case k2 < 4:
			op = []string{"add", "sub", "mul", "add"}[k2]
			if !eq(na.dims, nb.dims) {
				// implicit expansion only of an untracked operand (finding D2 makes expanded tracked operands fractional)
				if !(bcastable(nb.dims, na.dims) && !nb.tracked) {
					return
				}
			}
		case k2 == 4:
			op = "matmul"
			if len(na.dims) != 2 || len(nb.dims) != 2 || na.dims[1] != nb.dims[0] {
				return
			}
		case k2 == 5:
			op = "dot"
			if !eq(na.dims, nb.dims) || rank == 0 {
				return
			}
		case k2 == 6:
			op = "concat"
			if rank == 0 || len(nb.dims) != rank {
				return
			}
			par.Dim = d.rng.Intn(rank)
			for i := range na.dims {
				if i != par.Dim && na.dims[i] != nb.dims[i] {
					return
				}
			}
		default:
			op = []string{"gt", "eq"}[d.rng.Intn(2)]
			if !eq(na.dims, nb.dims) {
				return
			}
		}
	}
	if op == "" {
		return
	}
	ts := make([]tensor.Tensor, len(args))
	for i, x := range args {
		ts[i] = d.nodes[x-1].t
	}
	t, err := bind.Apply(op, par, ts)
	if err != nil {
		d.bad = fmt.Sprintf("op %s%v rejected: %v", op, args, err)
		return
	}
	dims, flat, err := bind.Read(t)
	if err != nil {
		d.bad = err.Error()
		return
	}
	data, ok := ints(flat)
	if !ok {
		return
	}
	for _, v := range flat {
		if math.Abs(v) > d.o.ValueCap {
			return // drop this result: keeps TLC's 32-bit integers safe
		}
	}
	cmp := op == "gt" || op == "eq"
	spent, tracked := false, false
	if !cmp {
		for _, x := range args {
			spent = spent || d.nodes[x-1].spent
			tracked = tracked || d.nodes[x-1].tracked
		}
		tracked = tracked && !spent
	}
	ctx := bind.Context(t)
	id := d.add(&node{t: t, dims: dims, tracked: tracked, spent: spent, wired: tracked, args: args})
	d.ev = append(d.ev, Event{"ev": "op", "id": id, "op": op, "par": parJSON(par), "args": args, "dims": dims, "data": data,
		"tracked": ctx.Tracked, "spent": ctx.Spent})
}

func bcastable(src, dst []int) bool {
	if len(src) > len(dst) {
		return false
	}
	for i := 1; i <= len(src); i++ {
		s, t := src[len(src)-i], dst[len(dst)-i]
		if s != t && s != 1 {
			return false
		}
	}
	return true
}

func (d *driver) bpOK(r int) bool {
	if d.o.NoProvisos {
		return true
	}
	re := map[int]bool{}
	d.reach(r, re)
	for x := range re {
		if d.nodes[x-1].wired && d.nodes[x-1].spent {
			return false
		}
	}
	return true
}

func (d *driver) backprop() bool {
	r := d.pick()
	if !d.bpOK(r) {
		return false
	}
	return d.backpropFrom(r)
}

func (d *driver) backpropFrom(r int) bool {
	if d.o.NoProvisos {
		// errors are acceptable here, panics are not (the caller recovers and reports them)
		tensor.BackPropagate(d.nodes[r-1].t)
		for _, n := range d.nodes {
			if g := n.t.Gradient(); g != nil {
				bind.Read(g)
			}
		}
		return true
	}
	hidden := map[any][2]int{} // hidden broadcast context -> logical edge (y, k)
	tensor.VerifSetSink(func(e tensor.VerifEvent) {
		switch e.Kind {
		case "begin":
			d.ev = append(d.ev, Event{"ev": "bpstart", "root": d.ctxID[e.Root]})
		case "seed":
			d.ev = append(d.ev, Event{"ev": "seed"})
		case "end":
			// emitted below with the full state
		case "edge":
			y, k := 0, 0
			if id, ok := d.ctxID[e.Consumer]; ok {
				y, k = id, e.Index+1
			} else if le, ok := hidden[e.Consumer]; ok {
				y, k = le[0], le[1]
			} else {
				d.bad = "edge event from an unknown context"
				return
			}
			x, known := d.ctxID[tensor.VerifContext(e.Target)]
			if !known {
				// a hidden expansion of operand k of y
				x = d.nodes[y-1].args[k-1]
				if e.Applied {
					hidden[tensor.VerifContext(e.Target)] = [2]int{y, k}
					return // the logical edge completes when the hidden tensor hands the gradient on
				}
				d.ev = append(d.ev, Event{"ev": "apply", "y": y, "k": k, "x": x, "g": []int{}})
				return
			}
			g := []int{}
			if e.Applied {
				_, flat, err := bind.Read(e.Target.Gradient())
				if err != nil {
					d.bad = err.Error()
					return
				}
				var ok bool
				g, ok = ints(flat)
				if !ok {
					d.bad = "non-integral or huge gradient"
					g = []int{}
				}
			}
			d.ev = append(d.ev, Event{"ev": "apply", "y": y, "k": k, "x": x, "g": g})
		}
	})
	err := tensor.BackPropagate(d.nodes[r-1].t)
	tensor.VerifSetSink(nil)
	if err != nil {
		d.bad = "BackPropagate failed: " + err.Error()
		return false
	}
	root := d.nodes[r-1]
	if !root.tracked {
		d.ev = append(d.ev, Event{"ev": "bpnoop", "root": r})
	} else {
		re := map[int]bool{}
		d.reach(r, re)
		for x := range re {
			d.nodes[x-1].spent = true
		}
	}
	// full projected state after the call
	flags := [][]bool{}
	grads := [][]int{}
	for _, n := range d.nodes {
		c := bind.Context(n.t)
		flags = append(flags, []bool{c.Tracked, c.Spent, c.HasGrad})
		g := []int{}
		if gt := n.t.Gradient(); gt != nil {
			_, flat, err := bind.Read(gt)
			if err != nil {
				d.bad = err.Error()
				return false
			}
			var ok bool
			g, ok = ints(flat)
			if !ok {
				d.bad = "non-integral or huge gradient"
				g = []int{}
			}
		}
		grads = append(grads, g)
	}
	if root.tracked {
		d.ev = append(d.ev, Event{"ev": "bpend", "root": r, "flags": flags, "grads": grads})
	} else {
		d.ev[len(d.ev)-1]["flags"] = flags
		d.ev[len(d.ev)-1]["grads"] = grads
	}
	return true
}

func (d *driver) reset() {
	t := d.pick()
	if d.o.NoProvisos {
		tr := d.rng.Intn(2) == 0
		n := d.nodes[t-1]
		delete(d.ctxID, tensor.VerifContext(n.t))
		n.t.ResetGradContext(tr)
		d.ctxID[tensor.VerifContext(n.t)] = t
		n.tracked, n.spent, n.wired, n.args = tr, false, false, nil
		return
	}
	for z := range d.nodes {
		nz := d.nodes[z]
		if nz.wired && !nz.spent && z+1 != t {
			anc := map[int]bool{}
			d.ancestors(z+1, anc)
			if anc[t] {
				return
			}
		}
	}
	tr := d.rng.Intn(2) == 0
	n := d.nodes[t-1]
	delete(d.ctxID, tensor.VerifContext(n.t))
	n.t.ResetGradContext(tr)
	d.ctxID[tensor.VerifContext(n.t)] = t
	n.tracked, n.spent, n.wired, n.args = tr, false, false, nil
	d.ev = append(d.ev, Event{"ev": "reset", "id": t, "tracked": tr})
}

// RunCrashOnly runs a proviso-free history and reports a panic (with the number of steps executed) if one occurs.
func RunCrashOnly(seed int64, o Opts) (panicked string) {
	o.NoProvisos = true
	defer func() {
		if r := recover(); r != nil {
			panicked = fmt.Sprint(r)
		}
	}()
	Run(seed, o)
	return ""
}
