// Package beh replays behaviours of the Autograd state machine (spec/Autograd.tla)
// on the real library: TLC dumps, for every transition of the model-checked
// state graph that ends in an idle state, a witness path of action labels and
// the projection of every tensor in the successor state; this package
// re-executes the path through the public API and compares the complete
// projected state (shape, every element, tracked / spent flags through the
// verif hooks, presence and every element of the gradient).
package beh

import (
	"encoding/json"
	"fmt"
	"math"

	"qeepverif/internal/bind"
	"qeepverif/internal/term"

	"github.com/sahandsafizadeh/qeep/tensor"
)

type NodeProj struct {
	Dims    []int     `json:"dims"`
	Data    []*term.T `json:"data"`
	Tracked bool      `json:"tracked"`
	Spent   bool      `json:"spent"`
	HasGrad bool      `json:"hasGrad"`
	Grad    []*term.T `json:"grad"`
	GradA   []*term.T `json:"gradA"` // gradient under the recorded deviations, when it differs
}

type Behaviour struct {
	P []json.RawMessage `json:"p"`
	S []NodeProj        `json:"s"`
}

type Action struct {
	Kind    string
	Dims    []int
	Data    []*term.T
	Tracked bool
	Op      string
	Par     bind.Par
	Args    []int
	Node    int
}

func ParseAction(raw json.RawMessage) (Action, error) {
	var parts []json.RawMessage
	if err := json.Unmarshal(raw, &parts); err != nil {
		return Action{}, err
	}
	var a Action
	if err := json.Unmarshal(parts[0], &a.Kind); err != nil {
		return a, err
	}
	get := func(i int, into any) error {
		if i >= len(parts) {
			return fmt.Errorf("action %s: missing field %d", a.Kind, i)
		}
		return json.Unmarshal(parts[i], into)
	}
	var err error
	switch a.Kind {
	case "create":
		if err = get(1, &a.Dims); err == nil {
			if err = get(2, &a.Data); err == nil {
				err = get(3, &a.Tracked)
			}
		}
	case "ctor":
		if err = get(1, &a.Op); err == nil {
			if err = get(2, &a.Dims); err == nil {
				err = get(3, &a.Tracked)
			}
		}
	case "op":
		if err = get(1, &a.Op); err == nil {
			if err = get(2, &a.Par); err == nil {
				err = get(3, &a.Args)
			}
		}
	case "bp", "scribble":
		err = get(1, &a.Node)
	case "reset":
		if err = get(1, &a.Node); err == nil {
			err = get(2, &a.Tracked)
		}
	case "seed", "apply", "bpend", "walk":
	default:
		err = fmt.Errorf("unknown action %q", a.Kind)
	}
	return a, err
}

func lit(ts []*term.T) []float64 {
	out := make([]float64, len(ts))
	for i, t := range ts {
		out[i] = t.Eval(nil, 1).V
	}
	return out
}

// Exec runs the path on the real library. forceUntracked creates every leaf
// untracked (used to show that tracking never changes forward values).
func Exec(b *Behaviour, forceUntracked bool, noScribble ...bool) (nodes []tensor.Tensor, err error) {
	defer func() {
		if r := recover(); r != nil {
			err = fmt.Errorf("panic: %v", r)
		}
	}()
	var passed []*bind.Passed
	// every gradient tensor ever observed, with its elements: tensors are immutable values, gradient tensors included
	type held struct {
		t    tensor.Tensor
		bits []uint64
		of   int
	}
	var grads []held
	seen := map[tensor.Tensor]bool{}
	observe := func() {
		for i, n := range nodes {
			if g := n.Gradient(); g != nil && !seen[g] {
				seen[g] = true
				_, flat, e := bind.Read(g)
				if e == nil {
					b := make([]uint64, len(flat))
					for k, v := range flat {
						b[k] = math.Float64bits(v)
					}
					grads = append(grads, held{g, b, i + 1})
				}
			}
		}
	}
	defer func() {
		if err != nil {
			return
		}
		for _, h := range grads {
			if bind.Scope != "C10" {
				break // "no back-propagation changes an existing tensor" is C10's statement: only its check looks
			}
			_, flat, e := bind.Read(h.t)
			if e != nil || len(flat) != len(h.bits) {
				err = fmt.Errorf("a gradient tensor handed out earlier for tensor %d can no longer be read or changed size", h.of)
				return
			}
			for k, v := range flat {
				if math.Float64bits(v) != h.bits[k] {
					err = fmt.Errorf("the gradient tensor handed out for tensor %d after an earlier back-propagation was modified in place (element %d: now %v)", h.of, k, v)
					return
				}
			}
		}
	}()
	for i, raw := range b.P {
		a, perr := ParseAction(raw)
		if perr != nil {
			return nil, fmt.Errorf("HARNESS: action %d: %v", i, perr)
		}
		switch a.Kind {
		case "create":
			t, p, e := bind.NewS(a.Dims, lit(a.Data), a.Tracked && !forceUntracked)
			if e != nil {
				return nil, fmt.Errorf("action %d create: %v", i, e)
			}
			nodes = append(nodes, t)
			passed = append(passed, p)
		case "ctor":
			dims := append([]int{}, a.Dims...)
			conf := &tensor.Config{Device: tensor.CPU, GradTrack: a.Tracked && !forceUntracked}
			var t tensor.Tensor
			var e error
			switch a.Op {
			case "full":
				t, e = tensor.Full(dims, -3.5, conf)
			case "zeros":
				t, e = tensor.Zeros(dims, conf)
			case "ones":
				t, e = tensor.Ones(dims, conf)
			}
			if e != nil {
				return nil, fmt.Errorf("action %d %s(%v): unexpected error: %v", i, a.Op, a.Dims, e)
			}
			nodes = append(nodes, t)
			passed = append(passed, &bind.Passed{Ints: [][]int{dims}})
		case "op":
			args := make([]tensor.Tensor, len(a.Args))
			for k, id := range a.Args {
				args[k] = nodes[id-1]
			}
			t, p, e := bind.ApplyS(a.Op, a.Par, args)
			if e != nil {
				return nil, fmt.Errorf("action %d %s%v: unexpected error: %v", i, a.Op, a.Args, e)
			}
			nodes = append(nodes, t)
			passed = append(passed, p)
		case "scribble":
			// overwrite every slice handed to the library by the call that created the tensor, and the
			// slice its Shape() hands out
			if len(noScribble) > 0 && noScribble[0] {
				continue
			}
			passed[a.Node-1].Scribble()
			sh := nodes[a.Node-1].Shape()
			for k := range sh {
				sh[k] = 7
			}
		case "bp":
			if e := tensor.BackPropagate(nodes[a.Node-1]); e != nil {
				return nil, fmt.Errorf("action %d BackPropagate(%d): unexpected error: %v", i, a.Node, e)
			}
			observe()
		case "reset":
			if !forceUntracked {
				nodes[a.Node-1].ResetGradContext(a.Tracked)
			}
		}
	}
	return nodes, nil
}

func close(exp *term.T, got float64) bool {
	iv := exp.Allowed(nil)
	if math.IsNaN(got) {
		return false
	}
	tol := term.K*iv.E + 1e-12*math.Abs(iv.Lo) + 1e-300
	return got >= iv.Lo-tol && got <= iv.Hi+tol
}

// Compare checks the real tensors against the projected successor state.
func Compare(b *Behaviour, nodes []tensor.Tensor) (detail string, known bool) {
	if len(nodes) != len(b.S) {
		return fmt.Sprintf("HARNESS: %d tensors, specification has %d", len(nodes), len(b.S)), false
	}
	for i, want := range b.S {
		t := nodes[i]
		dims, flat, err := bind.Read(t)
		if err != nil {
			return fmt.Sprintf("tensor %d: %v", i+1, err), false
		}
		if fmt.Sprint(dims) != fmt.Sprint(want.Dims) {
			return fmt.Sprintf("tensor %d has shape %v, specification %v", i+1, dims, want.Dims), false
		}
		for k, v := range flat {
			if !close(want.Data[k], v) {
				return fmt.Sprintf("tensor %d element %d is %v, specification %v", i+1, k, v, want.Data[k].Eval(nil, 1).V), false
			}
		}
		// the same elements through every other route (Reshape, Slice(nil), the whole-tensor reductions, Equals)
		if d := bind.CrossRead(t, dims, flat); d != "" {
			return fmt.Sprintf("tensor %d: %s", i+1, d), false
		}
		ctx := bind.Context(t)
		if ctx.Tracked != want.Tracked {
			return fmt.Sprintf("tensor %d tracked=%v, specification %v", i+1, ctx.Tracked, want.Tracked), false
		}
		if ctx.Spent != want.Spent {
			return fmt.Sprintf("tensor %d spent=%v, specification %v", i+1, ctx.Spent, want.Spent), false
		}
		g := t.Gradient()
		if (g != nil) != want.HasGrad {
			return fmt.Sprintf("tensor %d has a gradient: %v, specification %v", i+1, g != nil, want.HasGrad), false
		}
		if g != nil {
			gd, gflat, err := bind.Read(g)
			if err != nil {
				return fmt.Sprintf("gradient of tensor %d: %v", i+1, err), false
			}
			if fmt.Sprint(gd) != fmt.Sprint(want.Dims) {
				return fmt.Sprintf("gradient of tensor %d has shape %v, specification %v", i+1, gd, want.Dims), false
			}
			for k, v := range gflat {
				if !close(want.Grad[k], v) {
					if len(want.GradA) == len(gflat) {
						all := true
						for k2, v2 := range gflat {
							all = all && close(want.GradA[k2], v2)
						}
						if all {
							known = true
							break
						}
					}
					return fmt.Sprintf("gradient of tensor %d element %d is %v, specification %v", i+1, k, v, want.Grad[k].Eval(nil, 1).V), false
				}
			}
			if gc := bind.Context(g); gc.Tracked {
				return fmt.Sprintf("the gradient tensor of tensor %d is tracked", i+1), false
			}
		}
	}
	return "", known
}

// Replay executes and compares; "" means conformant; known reports that some
// gradient equals the specification's prediction under the recorded deviations
// instead of the correct one.
func Replay(b *Behaviour) (detail string, known bool) {
	defer func() {
		// reading a tensor back must never panic either: a panic here is the library's, not the harness's
		if r := recover(); r != nil {
			detail, known = fmt.Sprintf("panic while reading the tensors back: %v", r), false
		}
	}()
	nodes, err := Exec(b, false)
	if err != nil {
		return err.Error(), false
	}
	d, known := Compare(b, nodes)
	if d != "" {
		return d, false
	}
	// scribbling caller-owned slices changes nothing observable: identical to the run without it
	hasScribble := false
	for _, raw := range b.P {
		if len(raw) > 12 && string(raw[:11]) == `["scribble"` {
			hasScribble = true
		}
	}
	if hasScribble {
		clean, err := Exec(b, false, true)
		if err != nil {
			return "run without scribbling: " + err.Error(), false
		}
		for i := range nodes {
			if d := sameBits(nodes[i], clean[i]); d != "" {
				return fmt.Sprintf("tensor %d differs between the run with and without overwriting caller slices: %s", i+1, d), false
			}
			g1, g2 := nodes[i].Gradient(), clean[i].Gradient()
			if (g1 == nil) != (g2 == nil) {
				return fmt.Sprintf("tensor %d: gradient presence differs between the run with and without overwriting caller slices", i+1), false
			}
			if g1 != nil {
				if d := sameBits(g1, g2); d != "" {
					return fmt.Sprintf("gradient of tensor %d differs between the run with and without overwriting caller slices: %s", i+1, d), false
				}
			}
		}
	}
	// tracking never changes forward values: the same program without any tracking gives identical values
	// (C08's statement: only that property's check makes this run)
	if bind.Scope != "C08" {
		return "", known
	}
	plain, err := Exec(b, true)
	if err != nil {
		return "untracked re-run: " + err.Error(), false
	}
	for i := range nodes {
		_, a, _ := bind.Read(nodes[i])
		_, c, _ := bind.Read(plain[i])
		for k := range a {
			if math.Float64bits(a[k]) != math.Float64bits(c[k]) {
				return fmt.Sprintf("tensor %d element %d differs between the tracked and the untracked run (%v vs %v)", i+1, k, a[k], c[k]), false
			}
		}
	}
	return "", known
}

func sameBits(a, b tensor.Tensor) string {
	da, fa, err := bind.Read(a)
	if err != nil {
		return err.Error()
	}
	db, fb, err := bind.Read(b)
	if err != nil {
		return err.Error()
	}
	if fmt.Sprint(da) != fmt.Sprint(db) {
		return fmt.Sprintf("shape %v vs %v", da, db)
	}
	for k := range fa {
		if math.Float64bits(fa[k]) != math.Float64bits(fb[k]) {
			return fmt.Sprintf("element %d: %v vs %v", k, fa[k], fb[k])
		}
	}
	return ""
}
