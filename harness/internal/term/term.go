// Package term evaluates the value terms emitted by the TLA+ specification
// (spec/Val.tla) in float64.
//
// Wire format (spec/Emit.tla): a term is a JSON array
//
//	["q", n, d]        rational literal
//	["s", t, i]        element i (1-based, row-major) of input tensor t
//	["c", name]        named constant (epsLo, epsHi)
//	[f, arg, ...]      application of scalar function f
//
// Eval returns the value together with a first-order bound on the rounding
// error any reasonable evaluation order of the same formula may accumulate, so
// that a comparison tolerance can be derived from the formula and the inputs
// instead of being a fixed constant.
package term

import (
	"encoding/json"
	"fmt"
	"math"
	"os"
	"reflect"
)

type Kind uint8

const (
	KQ Kind = iota
	KS
	KC
	KA
	KSX   // operand element at a computed position (templates for large tensors, spec/Big.tla)
	KBS   // sum / max / min of Body over Var = Lo..Hi
	KLet  // shared sub-value
	KRV   // reference to a shared sub-value
	KIf   // Args[0] if IxA < IxB else Args[1] (which operand of a Concat / Patch a position reads)
	KMemo // Body, whose value depends on the position only through the index expressions Keys (a fibre's normaliser)
)

// Ix is an integer index expression of a template.
type Ix struct {
	Op   string // "il", "iv", "+", "*", "/", "%"
	N    int
	Var  string
	A, B *Ix
}

func (e *Ix) UnmarshalJSON(b []byte) error {
	var raw []json.RawMessage
	if err := json.Unmarshal(b, &raw); err != nil {
		return err
	}
	var head string
	if err := json.Unmarshal(raw[0], &head); err != nil {
		return err
	}
	switch head {
	case "il":
		e.Op = "il"
		return json.Unmarshal(raw[1], &e.N)
	case "iv":
		e.Op = "iv"
		return json.Unmarshal(raw[1], &e.Var)
	case "io":
		if err := json.Unmarshal(raw[1], &e.Op); err != nil {
			return err
		}
		e.A, e.B = new(Ix), new(Ix)
		if err := json.Unmarshal(raw[2], e.A); err != nil {
			return err
		}
		return json.Unmarshal(raw[3], e.B)
	}
	return fmt.Errorf("index expression: unknown head %q", head)
}

func (e *Ix) MarshalJSON() ([]byte, error) {
	switch e.Op {
	case "il":
		return json.Marshal([]any{"il", e.N})
	case "iv":
		return json.Marshal([]any{"iv", e.Var})
	}
	return json.Marshal([]any{"io", e.Op, e.A, e.B})
}

func (e *Ix) eval(b *Bind) int {
	switch e.Op {
	case "il":
		return e.N
	case "iv":
		return b.I[e.Var]
	case "+":
		return e.A.eval(b) + e.B.eval(b)
	case "*":
		return e.A.eval(b) * e.B.eval(b)
	case "/":
		return e.A.eval(b) / e.B.eval(b)
	case "%":
		return e.A.eval(b) % e.B.eval(b)
	}
	panic("term: index op " + e.Op)
}

// Bind holds the bound index variables and shared sub-values while a template is evaluated.
type Bind struct {
	I map[string]int
	R map[string]Res
}

type T struct {
	K        Kind
	N, D     int64   // KQ
	V        float64 // KQ: n/d
	Name     string  // KS: tensor name, KC: constant name, KA: function
	I        int     // KS: 1-based element
	Args     []*T
	Ix       *Ix   // KSX
	IxA, IxB *Ix   // KIf
	Keys     []*Ix // KMemo
	memoEnv  uintptr
	memo     map[string]Res
	Var      string // KBS, KLet, KRV
	Lo, Hi   int    // KBS
	Body     *T     // KBS, KLet
	Val      *T     // KLet
}

const (
	EpsLo = 1e-12
	EpsHi = 1 - EpsLo // same constant expression as the library's 1-epsilon
)

func (t *T) UnmarshalJSON(b []byte) error {
	var raw []json.RawMessage
	if err := json.Unmarshal(b, &raw); err != nil {
		return fmt.Errorf("term: %w in %.80s", err, b)
	}
	if len(raw) == 0 {
		return fmt.Errorf("term: empty array")
	}
	var head string
	if err := json.Unmarshal(raw[0], &head); err != nil {
		return fmt.Errorf("term head: %w", err)
	}
	switch head {
	case "q":
		t.K = KQ
		if len(raw) != 3 {
			return fmt.Errorf("term q arity")
		}
		if err := json.Unmarshal(raw[1], &t.N); err != nil {
			return err
		}
		if err := json.Unmarshal(raw[2], &t.D); err != nil {
			return err
		}
		t.V = float64(t.N) / float64(t.D)
	case "s":
		t.K = KS
		if len(raw) != 3 {
			return fmt.Errorf("term s arity")
		}
		if err := json.Unmarshal(raw[1], &t.Name); err != nil {
			return err
		}
		if err := json.Unmarshal(raw[2], &t.I); err != nil {
			return err
		}
	case "c":
		t.K = KC
		if err := json.Unmarshal(raw[1], &t.Name); err != nil {
			return err
		}
	case "sx":
		t.K = KSX
		if err := json.Unmarshal(raw[1], &t.Name); err != nil {
			return err
		}
		t.Ix = new(Ix)
		return json.Unmarshal(raw[2], t.Ix)
	case "bs":
		t.K = KBS
		if err := json.Unmarshal(raw[1], &t.Name); err != nil {
			return err
		}
		json.Unmarshal(raw[2], &t.Var)
		json.Unmarshal(raw[3], &t.Lo)
		json.Unmarshal(raw[4], &t.Hi)
		t.Body = new(T)
		return json.Unmarshal(raw[5], t.Body)
	case "let":
		t.K = KLet
		json.Unmarshal(raw[1], &t.Var)
		t.Val, t.Body = new(T), new(T)
		if err := json.Unmarshal(raw[2], t.Val); err != nil {
			return err
		}
		return json.Unmarshal(raw[3], t.Body)
	case "rv":
		t.K = KRV
		return json.Unmarshal(raw[1], &t.Var)
	case "memo":
		t.K = KMemo
		if err := json.Unmarshal(raw[1], &t.Keys); err != nil {
			return err
		}
		t.Body = new(T)
		return json.Unmarshal(raw[2], t.Body)
	case "if":
		t.K = KIf
		if len(raw) != 5 {
			return fmt.Errorf("term if arity")
		}
		t.IxA, t.IxB = new(Ix), new(Ix)
		if err := json.Unmarshal(raw[1], t.IxA); err != nil {
			return err
		}
		if err := json.Unmarshal(raw[2], t.IxB); err != nil {
			return err
		}
		t.Args = []*T{new(T), new(T)}
		if err := json.Unmarshal(raw[3], t.Args[0]); err != nil {
			return err
		}
		return json.Unmarshal(raw[4], t.Args[1])
	default:
		t.K = KA
		t.Name = head
		t.Args = make([]*T, len(raw)-1)
		for i := range t.Args {
			t.Args[i] = new(T)
			if err := json.Unmarshal(raw[i+1], t.Args[i]); err != nil {
				return err
			}
		}
	}
	return nil
}

func (t *T) MarshalJSON() ([]byte, error) {
	switch t.K {
	case KQ:
		return json.Marshal([]any{"q", t.N, t.D})
	case KS:
		return json.Marshal([]any{"s", t.Name, t.I})
	case KC:
		return json.Marshal([]any{"c", t.Name})
	case KSX:
		return json.Marshal([]any{"sx", t.Name, t.Ix})
	case KBS:
		return json.Marshal([]any{"bs", t.Name, t.Var, t.Lo, t.Hi, t.Body})
	case KLet:
		return json.Marshal([]any{"let", t.Var, t.Val, t.Body})
	case KRV:
		return json.Marshal([]any{"rv", t.Var})
	case KMemo:
		return json.Marshal([]any{"memo", t.Keys, t.Body})
	case KIf:
		return json.Marshal([]any{"if", t.IxA, t.IxB, t.Args[0], t.Args[1]})
	}
	out := make([]any, 0, len(t.Args)+1)
	out = append(out, t.Name)
	for _, a := range t.Args {
		out = append(out, a)
	}
	return json.Marshal(out)
}

// Env maps an input tensor name to its row-major elements.
type Env map[string][]float64

// Res is a value with an absolute rounding-error bound. Unstable is set when a
// discontinuous function (a comparison, or a max/min selector away from a
// genuine tie) was evaluated closer to its discontinuity than the error bound
// of its arguments: the assignment cannot decide anything and is skipped.
type Res struct {
	V, E     float64
	Unstable bool
}

const u = 1.1102230246251565e-16 // unit roundoff 2^-53

// Mode selects the one-sided derivative at exact ties of max / min:
// +1 = the differentiation variable moves up, -1 = down.
func (t *T) Eval(env Env, mode int) Res {
	return t.EvalAt(env, mode, &Bind{I: map[string]int{}, R: map[string]Res{}})
}

// EvalAt evaluates a template with bound index variables (the output position "p", summation variables).
func (t *T) EvalAt(env Env, mode int, b *Bind) Res {
	switch t.K {
	case KSX:
		return Res{V: env[t.Name][t.Ix.eval(b)]}
	case KRV:
		return b.R[t.Var]
	case KMemo:
		id := reflect.ValueOf(env).Pointer()
		if t.memoEnv != id || t.memo == nil {
			t.memoEnv, t.memo = id, map[string]Res{}
		}
		key := fmt.Sprint(mode)
		for _, k := range t.Keys {
			key += fmt.Sprint(",", k.eval(b))
		}
		if r, ok := t.memo[key]; ok {
			return r
		}
		r := t.Body.EvalAt(env, mode, b)
		t.memo[key] = r
		return r
	case KIf:
		if t.IxA.eval(b) < t.IxB.eval(b) {
			return t.Args[0].EvalAt(env, mode, b)
		}
		return t.Args[1].EvalAt(env, mode, b)
	case KLet:
		v := t.Val.EvalAt(env, mode, b)
		nb := &Bind{I: b.I, R: map[string]Res{}}
		for k, x := range b.R {
			nb.R[k] = x
		}
		nb.R[t.Var] = v
		return t.Body.EvalAt(env, mode, nb)
	case KBS:
		nb := &Bind{I: map[string]int{}, R: b.R}
		for k, x := range b.I {
			nb.I[k] = x
		}
		var acc Res
		mag := 0.0
		unstable := false
		for q := t.Lo; q <= t.Hi; q++ {
			nb.I[t.Var] = q
			r := t.Body.EvalAt(env, mode, nb)
			unstable = unstable || r.Unstable
			switch {
			case q == t.Lo && t.Name != "sum":
				acc = r
			case t.Name == "sum":
				acc.V += r.V
				mag += u * abs(r.V) // scaled while it is accumulated: the plain sum of magnitudes may overflow
				acc.E += r.E
			case t.Name == "max":
				acc = Res{V: math.Max(acc.V, r.V), E: math.Max(acc.E, r.E)}
			case t.Name == "min":
				acc = Res{V: math.Min(acc.V, r.V), E: math.Max(acc.E, r.E)}
			}
		}
		if t.Name == "sum" {
			// any summation order of n terms: at most (n-1) roundings of partial sums bounded by the magnitude
			acc.E += float64(t.Hi-t.Lo+1) * mag
		}
		acc.Unstable = unstable
		return acc
	case KQ:
		e := 0.0
		if t.D != 1 {
			e = u * math.Abs(t.V)
		}
		return Res{V: t.V, E: e}
	case KS:
		return Res{V: env[t.Name][t.I-1]}
	case KC:
		if v, ok := ConstValue(t.Name); ok {
			return Res{V: v}
		}
		panic("term: unknown constant " + t.Name)
	}
	a := make([]Res, len(t.Args))
	unstable := false
	for i, x := range t.Args {
		if t.Name == "pow" && i == 1 {
			a[i] = Res{V: x.V}
			continue
		}
		a[i] = x.EvalAt(env, mode, b)
		unstable = unstable || a[i].Unstable
	}
	r := apply(t.Name, a, mode)
	r.Unstable = r.Unstable || unstable
	if debugNaN && (math.IsNaN(r.E) || math.IsInf(r.E, 0)) {
		ok := true
		for _, x := range a {
			ok = ok && !math.IsNaN(x.E) && !math.IsInf(x.E, 0)
		}
		if ok {
			fmt.Fprintf(os.Stderr, "TERM-NAN %s args=%+v -> %+v\n", t.Name, a, r)
		}
	}
	return r
}

var debugNaN = os.Getenv("QV_DEBUG_NAN") != ""

// ConstValue: the named real constants of the specification (Val!Cst). Each is the float64 named here exactly.
func ConstValue(name string) (float64, bool) {
	switch name {
	case "epsLo":
		return EpsLo, true
	case "epsHi":
		return EpsHi, true
	case "tiny250": // far below the library's equality tolerance (1e-240), far above the subnormal range
		return 1e-250, true
	case "huge249":
		return 2.5e249, true
	case "giga": // a slope / factor of 1e9
		return 1e9, true
	}
	return 0, false
}

func abs(x float64) float64 { return math.Abs(x) }

func apply(f string, a []Res, mode int) Res {
	switch f {
	case "add":
		v := a[0].V + a[1].V
		return Res{V: v, E: a[0].E + a[1].E + u*abs(a[0].V) + u*abs(a[1].V)} // (not u*(|a|+|b|): that sum may overflow)
	case "sub":
		v := a[0].V - a[1].V
		return Res{V: v, E: a[0].E + a[1].E + u*abs(a[0].V) + u*abs(a[1].V)} // (not u*(|a|+|b|): that sum may overflow)
	case "neg":
		return Res{V: -a[0].V, E: a[0].E}
	case "mul":
		v := a[0].V * a[1].V
		if math.IsInf(v, 0) && !math.IsInf(a[0].V, 0) && !math.IsInf(a[1].V, 0) {
			// overflow of a product of finite factors. With factors known to 0.1% the true product is beyond 1e307 in
			// magnitude: that much is recorded (E = 0 on an infinite V) for a quotient that divides by it; anything else
			// that consumes it ends up with a non-finite bound, which leaves the element undecided.
			if a[0].E <= 1e-3*abs(a[0].V) && a[1].E <= 1e-3*abs(a[1].V) {
				return Res{V: v}
			}
			return Res{V: v, E: math.Inf(1), Unstable: true}
		}
		return Res{V: v, E: abs(a[0].V)*a[1].E + abs(a[1].V)*a[0].E + a[0].E*a[1].E + u*abs(v)}
	case "div":
		v := a[0].V / a[1].V
		if math.IsInf(a[1].V, 0) && a[1].E == 0 && !math.IsInf(a[0].V, 0) && !math.IsNaN(a[0].V) && !math.IsInf(a[0].E, 0) && !math.IsNaN(a[0].E) {
			// divisor = an overflowed product (true magnitude beyond 1e307, see "mul"): the quotient is that close to 0
			return Res{V: v, E: (abs(a[0].V) + a[0].E) / 1e307}
		}
		den := abs(a[1].V) - a[1].E
		if den <= 0 {
			return Res{V: v, E: math.Inf(1), Unstable: true}
		}
		return Res{V: v, E: a[0].E/den + (abs(a[0].V)/den)*(a[1].E/den) + 2*u*abs(v)}
	case "pow":
		k := a[1].V
		v := math.Pow(a[0].V, k)
		d := abs(k * math.Pow(abs(a[0].V)+a[0].E, k-1))
		if k < 1 {
			d = abs(k * math.Pow(math.Max(abs(a[0].V)-a[0].E, 0), k-1))
		}
		e := 4 * u * abs(v)
		if a[0].E > 0 {
			e += d * a[0].E
		}
		return Res{V: v, E: e}
	case "exp":
		v := math.Exp(a[0].V)
		return Res{V: v, E: v*a[0].E*math.Exp(a[0].E) + 4*u*v}
	case "log":
		v := math.Log(a[0].V)
		lo := a[0].V - a[0].E
		if lo <= 0 {
			return Res{V: v, E: math.Inf(1), Unstable: true}
		}
		return Res{V: v, E: a[0].E/lo + 4*u*abs(v)}
	case "sqrt":
		v := math.Sqrt(a[0].V)
		lo := a[0].V - a[0].E
		if lo <= 0 {
			return Res{V: v, E: math.Inf(1), Unstable: true}
		}
		return Res{V: v, E: a[0].E/(2*math.Sqrt(lo)) + 4*u*abs(v)}
	case "sin":
		v := math.Sin(a[0].V)
		return Res{V: v, E: a[0].E + 4*u*(abs(v)+u*abs(a[0].V))}
	case "cos":
		v := math.Cos(a[0].V)
		return Res{V: v, E: a[0].E + 4*u*(abs(v)+u*abs(a[0].V))}
	case "tan":
		v := math.Tan(a[0].V)
		c := math.Cos(a[0].V)
		return Res{V: v, E: 2*a[0].E/(c*c) + 8*u*abs(v)}
	case "sinh":
		v := math.Sinh(a[0].V)
		return Res{V: v, E: math.Cosh(abs(a[0].V)+a[0].E)*a[0].E + 8*u*abs(v)}
	case "cosh":
		v := math.Cosh(a[0].V)
		return Res{V: v, E: v*a[0].E*math.Exp(a[0].E) + 8*u*v}
	case "tanh":
		v := math.Tanh(a[0].V)
		return Res{V: v, E: a[0].E + 4*u*abs(v)}
	case "max", "min":
		x, y := a[0], a[1]
		var v float64
		if f == "max" {
			v = math.Max(x.V, y.V)
		} else {
			v = math.Min(x.V, y.V)
		}
		return Res{V: v, E: math.Max(x.E, y.E)}
	case "dmax", "dmin":
		x, y, dx, dy := a[0], a[1], a[2], a[3]
		if x.V == y.V && x.E == 0 && y.E == 0 {
			// genuine tie: the argument that grows faster in direction mode wins for max
			grow := (dx.V - dy.V) * float64(mode)
			pickX := grow > 0
			if f == "dmin" {
				pickX = grow < 0
			}
			if grow == 0 {
				pickX = true
			}
			if pickX {
				return dx
			}
			return dy
		}
		if abs(x.V-y.V) <= S*(x.E+y.E) {
			return Res{V: dx.V, E: abs(dx.V-dy.V) + dx.E + dy.E, Unstable: true}
		}
		pickX := x.V > y.V
		if f == "dmin" {
			pickX = x.V < y.V
		}
		if pickX {
			return dx
		}
		return dy
	case "eq", "ne", "gt", "ge", "lt", "le":
		x, y := a[0], a[1]
		d := x.V - y.V
		unstable := false
		if x.E+y.E > 0 && abs(d) <= S*(x.E+y.E) {
			unstable = true
		}
		var b bool
		switch f {
		case "eq":
			b = abs(d) <= 1e-240
		case "ne":
			b = !(abs(d) <= 1e-240)
		case "gt":
			b = x.V > y.V
		case "ge":
			b = x.V >= y.V
		case "lt":
			b = x.V < y.V
		case "le":
			b = x.V <= y.V
		}
		if b {
			return Res{V: 1, Unstable: unstable}
		}
		return Res{V: 0, Unstable: unstable}
	}
	panic("term: unknown function " + f)
}

// Interval is the set of values the specification allows for one element.
type Interval struct {
	Lo, Hi   float64
	E        float64
	Unstable bool
}

// Allowed evaluates both one-sided readings and returns their hull.
func (t *T) Allowed(env Env) Interval {
	return t.AllowedAt(env, 0)
}

// K is the safety factor applied to the first-order error bound.
const K = 1 << 12

// S is the safety factor for deciding that a discontinuous function (a comparison, a max / min selector) was evaluated
// too close to its discontinuity for this assignment to decide anything: two sound floating-point evaluations of the
// arguments may differ by somewhat more than the first-order bound. (Found by a 40-step training trajectory that had
// converged onto the clipping bound of CE, where the library's and the evaluator's softmax output fell on different
// sides of 1 - 1e-12.)
const S = 64

func (iv Interval) Finite() bool {
	return !math.IsNaN(iv.Lo) && !math.IsNaN(iv.Hi) && !math.IsInf(iv.Lo, 0) && !math.IsInf(iv.Hi, 0) && !math.IsInf(iv.E, 0) && !math.IsNaN(iv.E)
}

func (iv Interval) Tol() float64 {
	return K*iv.E + 1e-300
}

func (iv Interval) Contains(got float64) bool {
	if math.IsNaN(got) {
		return false
	}
	tol := iv.Tol()
	return got >= iv.Lo-tol && got <= iv.Hi+tol
}

// Syms collects the (tensor, element) pairs a term mentions.
func (t *T) Syms(into map[string]map[int]bool) {
	switch t.K {
	case KS:
		if into[t.Name] == nil {
			into[t.Name] = map[int]bool{}
		}
		into[t.Name][t.I] = true
	case KA:
		for _, a := range t.Args {
			a.Syms(into)
		}
	}
}

// HasFn reports whether function f occurs in the term.
func (t *T) HasFn(f string) bool {
	if t.K != KA {
		return false
	}
	if t.Name == f {
		return true
	}
	for _, a := range t.Args {
		if a.HasFn(f) {
			return true
		}
	}
	return false
}

// AllowedAt is Allowed for a template at output position p.
func (t *T) AllowedAt(env Env, p int) Interval {
	b := &Bind{I: map[string]int{"p": p}, R: map[string]Res{}}
	pl := t.EvalAt(env, +1, b)
	mi := t.EvalAt(env, -1, b)
	return Interval{Lo: math.Min(pl.V, mi.V), Hi: math.Max(pl.V, mi.V), E: math.Max(pl.E, mi.E), Unstable: pl.Unstable || mi.Unstable}
}
