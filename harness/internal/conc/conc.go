// Package conc executes the goroutine programs of spec/Conc.tla on the real
// library: sequentially (reference results, write-set differencing) and
// concurrently (real goroutines; the binary cmd/qvrace is built with Go's race
// detector).
package conc

import (
	"encoding/json"
	"fmt"
	"math"
	"sync"

	"qeepverif/internal/bind"

	"github.com/sahandsafizadeh/qeep/component/initializers"
	"github.com/sahandsafizadeh/qeep/component/layers"
	"github.com/sahandsafizadeh/qeep/component/layers/activations"
	"github.com/sahandsafizadeh/qeep/component/losses"
	"github.com/sahandsafizadeh/qeep/tensor"
)

type Instr struct {
	Kind    string
	Slots   [][2]any // for op / cmp
	Slot    [2]any   // for bp / reset
	OpKind  string
	Tracked bool
}

func (i *Instr) UnmarshalJSON(b []byte) error {
	var parts []json.RawMessage
	if err := json.Unmarshal(b, &parts); err != nil {
		return err
	}
	json.Unmarshal(parts[0], &i.Kind)
	switch i.Kind {
	case "leaf":
		return json.Unmarshal(parts[1], &i.Tracked)
	case "grad":
		var r []any
		if err := json.Unmarshal(parts[1], &r); err != nil {
			return err
		}
		i.Slot = [2]any{r[0], r[1]}
	case "op", "cmp":
		var raw [][]any
		if err := json.Unmarshal(parts[1], &raw); err != nil {
			return err
		}
		for _, r := range raw {
			i.Slots = append(i.Slots, [2]any{r[0], r[1]})
		}
		if len(parts) > 2 {
			json.Unmarshal(parts[2], &i.OpKind)
		}
	case "bp", "reset":
		var r []any
		if err := json.Unmarshal(parts[1], &r); err != nil {
			return err
		}
		i.Slot = [2]any{r[0], r[1]}
		if len(parts) > 2 {
			json.Unmarshal(parts[2], &i.Tracked)
		}
	}
	return nil
}

type View struct {
	Tracked bool `json:"tracked"`
	Spent   bool `json:"spent"`
	Wired   bool `json:"wired"`
	HasGrad bool `json:"hasGrad"`
}

type Menu struct {
	Menu   [][]Instr `json:"menu"`
	Views  [][]View  `json:"views"`
	Writes [][][]int `json:"writes"`
}

type Shared struct {
	S     [6]tensor.Tensor
	Layer *layers.FC // a layer object shared by all goroutines
	Soft  *activations.Softmax
}

// Universe selects the shape of the shared (and private) tensors the menu programs work on: the specification's
// footprints do not depend on shapes, the code paths do (rank >= 3 accessors, kernels that switch strategy on size).
//
//	0: [2,2]   1: [3,2,2]   2: [64,64]
var Universe = 0

func baseDims() []int {
	switch Universe {
	case 1:
		return []int{3, 2, 2}
	case 2:
		return []int{64, 64}
	}
	return []int{2, 2}
}

func gen(mul, mod, off int, div float64) []float64 {
	n := 1
	for _, d := range baseDims() {
		n *= d
	}
	v := make([]float64, n)
	for i := range v {
		x := (i*mul)%mod - off
		if x >= 0 {
			x++ // never zero: the programs divide by shared tensors
		}
		v[i] = float64(x) / div
	}
	return v
}

// to2D views a tensor of rank > 2 as [first, rest] for the components that require rank 2.
func to2D(t tensor.Tensor) (tensor.Tensor, error) {
	sh := t.Shape()
	if len(sh) == 2 {
		return t, nil
	}
	return t.Reshape([]int{sh[0], t.NElems() / sh[0]})
}

func NewShared() *Shared {
	v1, v2 := []float64{1, 2, 3, 4}, []float64{0.5, 1, 2, -1}
	if Universe != 0 {
		v1, v2 = gen(7, 11, 5, 4), gen(5, 9, 3, 8)
	}
	s1, _ := bind.New(baseDims(), v1, true)
	s2, _ := bind.New(baseDims(), v2, false)
	fcConf := &layers.FCConfig{Inputs: 2, Outputs: 2, Initializers: map[string]layers.Initializer{
		"Weight": initializers.NewFull(&initializers.FullConfig{Value: 0.5}), "Bias": initializers.NewFull(&initializers.FullConfig{Value: -0.25})}}
	fc, err := layers.NewFC(fcConf)
	if err != nil {
		panic(err)
	}
	fcConf.Inputs, fcConf.Outputs, fcConf.Initializers = 77, 78, nil // the config structs are the caller's
	softConf := &activations.SoftmaxConfig{Dim: 1}
	soft, _ := activations.NewSoftmax(softConf)
	softConf.Dim = 7
	// the third shared tensor is the RESULT of an operation on untracked operands, and nothing has looked at it yet
	// (not even its gradient context) when the goroutines start
	s3, _ := s2.Sub(s2.Scale(0.5))
	// the fourth one is the result of a COMPARISON, equally untouched
	s4, _ := s2.Gt(s2.Scale(2))
	// the fifth one is a tracked leaf with fan-out 2 that has been back-propagated already; nobody has read its gradient yet
	s5, _ := bind.New(baseDims(), v2, true)
	if y, err := s5.Mul(s5); err == nil {
		tensor.BackPropagate(y)
	}
	// the sixth one is a tracked INTERIOR tensor: computed from the shared parameter before the goroutines start
	s6 := s1.Exp()
	return &Shared{S: [6]tensor.Tensor{s1, s2, s3, s4, s5, s6}, Layer: fc, Soft: soft}
}

func resolve(sh *Shared, local []tensor.Tensor, slot [2]any) tensor.Tensor {
	j := int(slot[1].(float64))
	if slot[0].(string) == "s" {
		return sh.S[j-1]
	}
	return local[j-1]
}

// Step executes one instruction; it returns the tensor created (nil for bp / reset).
func Step(sh *Shared, local []tensor.Tensor, in Instr) (tensor.Tensor, error) {
	switch in.Kind {
	case "leaf":
		if Universe != 0 {
			return bind.New(baseDims(), gen(3, 7, 2, 2), in.Tracked)
		}
		return bind.New([]int{2, 2}, []float64{1, 0, 2, 1}, in.Tracked)
	case "rand":
		return tensor.RandU(baseDims(), 0, 1, nil)
	case "grad":
		g := resolve(sh, local, in.Slot).Gradient()
		if g == nil {
			return nil, fmt.Errorf("the tensor has no gradient")
		}
		return g.Scale(2), nil
	case "cmp":
		return resolve(sh, local, in.Slots[0]).Gt(resolve(sh, local, in.Slots[1]))
	case "op":
		a := resolve(sh, local, in.Slots[0])
		var b tensor.Tensor
		if len(in.Slots) > 1 {
			b = resolve(sh, local, in.Slots[1])
		}
		switch in.OpKind {
		case "mul":
			return a.Mul(b)
		case "matmul":
			return a.MatMul(b)
		case "sumalong":
			return a.SumAlong(0)
		case "scale":
			return a.Scale(2), nil
		case "relu":
			return activations.NewRelu().Forward(a)
		case "sigmoid":
			return activations.NewSigmoid().Forward(a)
		case "elmax":
			return a.ElMax(b)
		case "transpose":
			return a.Transpose()
		case "concat":
			return tensor.Concat([]tensor.Tensor{a, b}, 0)
		case "slice":
			return a.Slice([]tensor.Range{{From: 0, To: 1}})
		case "softmax":
			return sh.Soft.Forward(a)
		case "fc":
			a2, err := to2D(a)
			if err != nil {
				return nil, err
			}
			return sh.Layer.Forward(a2)
		case "dot":
			return a.Dot(b)
		case "sub":
			return a.Sub(b)
		case "div":
			return a.Div(b)
		case "pow":
			return a.Pow(2), nil
		case "exp":
			return a.Exp(), nil
		case "tanh":
			return activations.NewTanh().Forward(a)
		case "leakyrelu":
			return activations.NewLeakyRelu(&activations.LeakyReluConfig{M: 0.125}).Forward(a)
		case "reshape":
			return a.Reshape([]int{a.NElems()})
		case "flatten":
			return a.Flatten(0)
		case "unsqueeze":
			return a.UnSqueeze(1)
		case "broadcast":
			return a.Broadcast(append([]int{3}, a.Shape()...))
		case "patch":
			var idx []tensor.Range
			for _, d := range a.Shape() {
				idx = append(idx, tensor.Range{From: 0, To: d})
			}
			return a.Patch(idx, b)
		case "varalong":
			return a.VarAlong(1)
		case "maxalong":
			return a.MaxAlong(0)
		case "ce":
			pa, err := sh.Soft.Forward(a)
			if err != nil {
				return nil, err
			}
			pb, err := sh.Soft.Forward(b)
			if err != nil {
				return nil, err
			}
			if pa, err = to2D(pa); err != nil {
				return nil, err
			}
			if pb, err = to2D(pb); err != nil {
				return nil, err
			}
			return losses.NewCE().Compute(pa, pb)
		case "bce":
			fa, err := a.Flatten(0)
			if err != nil {
				return nil, err
			}
			fb, err := b.Flatten(0)
			if err != nil {
				return nil, err
			}
			if n := fa.NElems(); fb.NElems() > n { // shapes other than [2,2]: compare with the leading part
				if fb, err = fb.Slice([]tensor.Range{{From: 0, To: n}}); err != nil {
					return nil, err
				}
			}
			return losses.NewBCE().Compute(fa, fb)
		case "mse":
			fa, err := a.Flatten(0)
			if err != nil {
				return nil, err
			}
			fb, err := b.Flatten(0)
			if err != nil {
				return nil, err
			}
			if n := fa.NElems(); fb.NElems() > n { // shapes other than [2,2]: compare with the leading part
				if fb, err = fb.Slice([]tensor.Range{{From: 0, To: n}}); err != nil {
					return nil, err
				}
			}
			return losses.NewMSE().Compute(fa, fb)
		}
		return nil, fmt.Errorf("unknown op kind %q", in.OpKind)
	case "bp":
		return nil, tensor.BackPropagate(resolve(sh, local, in.Slot))
	case "reset":
		resolve(sh, local, in.Slot).ResetGradContext(in.Tracked)
		return nil, nil
	}
	return nil, fmt.Errorf("unknown instruction %q", in.Kind)
}

// Digest is everything observable about a tensor.
type Digest struct {
	Dims    []int
	Bits    []uint64
	Tracked bool
	Spent   bool
	HasGrad bool
	GBits   []uint64
	Random  bool
}

func DigestOf(t tensor.Tensor) Digest {
	d := Digest{}
	dims, flat, err := bind.Read(t)
	if err != nil {
		return d
	}
	d.Dims = dims
	for _, v := range flat {
		d.Bits = append(d.Bits, math.Float64bits(v))
	}
	c := bind.Context(t)
	d.Tracked, d.Spent, d.HasGrad = c.Tracked, c.Spent, c.HasGrad
	if g := t.Gradient(); g != nil {
		_, gf, _ := bind.Read(g)
		for _, v := range gf {
			d.GBits = append(d.GBits, math.Float64bits(v))
		}
	}
	return d
}

func (a Digest) Equal(b Digest, values bool) bool {
	if fmt.Sprint(a.Dims) != fmt.Sprint(b.Dims) || a.Tracked != b.Tracked || a.Spent != b.Spent || a.HasGrad != b.HasGrad {
		return false
	}
	if !values {
		return true
	}
	return fmt.Sprint(a.Bits) == fmt.Sprint(b.Bits) && fmt.Sprint(a.GBits) == fmt.Sprint(b.GBits)
}

// RunSeq runs one program alone and returns the digests of its local tensors.
func RunSeq(sh *Shared, p []Instr) ([]Digest, []tensor.Tensor, error) {
	var local []tensor.Tensor
	var random []bool
	for _, in := range p {
		t, err := Step(sh, local, in)
		if err != nil {
			return nil, nil, err
		}
		if t != nil {
			local = append(local, t)
			random = append(random, in.Kind == "rand")
		}
	}
	out := make([]Digest, len(local))
	for i, t := range local {
		out[i] = DigestOf(t)
		out[i].Random = random[i]
	}
	return out, local, nil
}

// RunConcurrent runs the programs in parallel goroutines on one shared heap, rounds times, and compares
// every goroutine's results with the sequential reference. It returns a description of the first difference.
func RunConcurrent(progs [][]Instr, rounds int) string {
	// The concurrent rounds come FIRST: the sequential reference would otherwise warm up whatever package-level
	// state the library keeps (pools, buffers that grow on first use) before any goroutine gets to race on it.
	type round struct {
		got    [][]Digest
		errs   []error
		shared [2]bool
	}
	all := make([]round, rounds)
	for r := 0; r < rounds; r++ {
		sh := NewShared()
		before := [2]Digest{DigestOf(sh.S[0]), DigestOf(sh.S[1])} // the third one must not be touched before the goroutines run
		got := make([][]Digest, len(progs))
		errs := make([]error, len(progs))
		var wg sync.WaitGroup
		start := make(chan struct{})
		for g := range progs {
			wg.Add(1)
			go func(g int) {
				defer wg.Done()
				<-start
				got[g], _, errs[g] = RunSeq(sh, progs[g])
			}(g)
		}
		close(start)
		wg.Wait()
		all[r] = round{got: got, errs: errs}
		for i := 0; i < 2; i++ {
			all[r].shared[i] = DigestOf(sh.S[i]).Equal(before[i], true)
		}
	}
	ref := make([][]Digest, len(progs))
	for g, p := range progs {
		d, _, err := RunSeq(NewShared(), p)
		if err != nil {
			return fmt.Sprintf("HARNESS: sequential run of program %d failed: %v", g, err)
		}
		ref[g] = d
	}
	for r := 0; r < rounds; r++ {
		got, errs := all[r].got, all[r].errs
		for g := range progs {
			if errs[g] != nil {
				return fmt.Sprintf("round %d goroutine %d: %v", r, g, errs[g])
			}
			if len(got[g]) != len(ref[g]) {
				return fmt.Sprintf("round %d goroutine %d: %d tensors, sequentially %d", r, g, len(got[g]), len(ref[g]))
			}
			for j := range got[g] {
				if !got[g][j].Equal(ref[g][j], !ref[g][j].Random && !dependsOnRandom(progs[g], j, ref[g])) {
					return fmt.Sprintf("round %d goroutine %d tensor %d differs from the sequential result: %+v vs %+v", r, g, j+1, got[g][j], ref[g][j])
				}
			}
		}
		for i := 0; i < 2; i++ {
			if !all[r].shared[i] {
				return fmt.Sprintf("round %d: shared tensor %d was modified", r, i+1)
			}
		}
	}
	return ""
}

// dependsOnRandom: values of tensors computed from a random tensor are not comparable across runs.
func dependsOnRandom(p []Instr, j int, ref []Digest) bool {
	// local tensor j (0-based) is created by the (j+1)-th creating instruction
	random := map[int]bool{}
	n := 0
	for _, in := range p {
		creates := in.Kind != "bp" && in.Kind != "reset"
		if !creates {
			continue
		}
		n++
		r := in.Kind == "rand"
		for _, s := range in.Slots {
			if s[0].(string) == "l" && random[int(s[1].(float64))] {
				r = true
			}
		}
		random[n] = r
	}
	return random[j+1]
}
