// Package bind connects the wire format of the specification to the real
// qeep API: building tensors, reading them back completely, and dispatching an
// operation by its specification name.
package bind

import (
	"encoding/json"
	"fmt"
	"math"
	"os"

	"github.com/sahandsafizadeh/qeep/component/layers"
	"github.com/sahandsafizadeh/qeep/component/layers/activations"
	"github.com/sahandsafizadeh/qeep/component/losses"
	"github.com/sahandsafizadeh/qeep/component/optimizers"
	"github.com/sahandsafizadeh/qeep/tensor"

	"qeepverif/internal/term"
)

type Tensor = tensor.Tensor

// Par carries the parameters of an instruction. K is a rational literal term
// ["q", n, d] on the wire.
type Par struct {
	Dim   int      `json:"dim"`
	K     *Rat     `json:"k,omitempty"`
	Shape []int    `json:"shape,omitempty"`
	Index [][2]int `json:"index,omitempty"`
	Nil   bool     `json:"nilconf,omitempty"` // pass a nil config (defaults) to the component
	NegZ  bool     `json:"negzero,omitempty"` // Full: the requested constant is -0.0 (no rational literal has a sign of zero)
	Inst  int      `json:"inst,omitempty"`    // > 0: re-use the component object with this number within the case
}

// Registry holds the component objects (layers, losses, optimizers) a case re-uses across instructions.
type Registry struct {
	objs map[int]any
	ints map[string][]int          // non-nil: one slice object per distinct dimension list (NewReusingRegistry)
	rngs map[string][]tensor.Range // non-nil: one slice object per distinct index
}

// Scope is the property whose check is running (QV_PROP; set for the worker processes by the farm). Differential
// runs that realise ANOTHER property's scenario are only made when that property is the one being checked: the run
// with all inputs untracked belongs to C08 ("tracking never changes forward values"), the run with the caller's slices
// overwritten to C10. TwinOnly (QV_TWINONLY=1): a replay of some other property's cases made only for those
// differential runs - comparisons with the specified values are not this check's business and are skipped.
var (
	Scope    = os.Getenv("QV_PROP")
	TwinOnly = os.Getenv("QV_TWINONLY") == "1"
)

type sgdSlot struct {
	opt *optimizers.SGD
	w   Tensor
}

func NewRegistry() *Registry { return &Registry{objs: map[int]any{}} }

// NewReusingRegistry is a registry whose caller keeps ONE slice object per distinct dimension list and per distinct
// index, and passes that same object in every call that needs those values - as a program does that holds its index in
// a variable. The slices are the caller's: whatever the library is given, the caller still believes they hold what it
// wrote into them.
func NewReusingRegistry() *Registry {
	return &Registry{objs: map[int]any{}, ints: map[string][]int{}, rngs: map[string][]tensor.Range{}}
}

// Changed names a caller-owned slice of a reusing registry that no longer holds what the caller wrote into it ("" if none).
func (r *Registry) Changed() string {
	if r == nil {
		return ""
	}
	for k, v := range r.ints {
		if fmt.Sprint(v) != k {
			return fmt.Sprintf("the caller's dimension list %s now holds %v", k, v)
		}
	}
	for k, v := range r.rngs {
		cur := make([][2]int, len(v))
		for i, x := range v {
			cur[i] = [2]int{x.From, x.To}
		}
		if fmt.Sprint(cur) != k {
			return fmt.Sprintf("the caller's index %s now holds %v", k, cur)
		}
	}
	return ""
}

func (r *Registry) get(inst int, make func() (any, error)) (any, error) {
	if r == nil || inst == 0 {
		return make()
	}
	if o, ok := r.objs[inst]; ok {
		return o, nil
	}
	o, err := make()
	if err == nil {
		r.objs[inst] = o
	}
	return o, err
}

type forwarder interface {
	Forward(xs ...Tensor) (Tensor, error)
}
type computer interface {
	Compute(yp Tensor, yt Tensor) (Tensor, error)
}

type Rat struct {
	N, D int64
	C    string // a named real constant of the specification (["c", name]) instead of a rational
}

func (r *Rat) UnmarshalJSON(b []byte) error {
	var raw []json.RawMessage
	if err := json.Unmarshal(b, &raw); err != nil {
		return err
	}
	if len(raw) == 2 {
		var kind string
		if json.Unmarshal(raw[0], &kind) == nil && kind == "c" {
			if err := json.Unmarshal(raw[1], &r.C); err != nil {
				return err
			}
			if _, ok := term.ConstValue(r.C); !ok {
				return fmt.Errorf("rat: unknown constant %q", r.C)
			}
			return nil
		}
	}
	if len(raw) != 3 {
		return fmt.Errorf("rat: want [\"q\",n,d] or [\"c\",name], got %s", b)
	}
	if err := json.Unmarshal(raw[1], &r.N); err != nil {
		return err
	}
	return json.Unmarshal(raw[2], &r.D)
}

func (r Rat) MarshalJSON() ([]byte, error) {
	if r.C != "" {
		return json.Marshal([]any{"c", r.C})
	}
	return json.Marshal([]any{"q", r.N, r.D})
}

func (r *Rat) Float() float64 {
	if r == nil {
		return 0
	}
	if r.C != "" {
		v, _ := term.ConstValue(r.C)
		return v
	}
	return float64(r.N) / float64(r.D)
}

func Prod(dims []int) int {
	n := 1
	for _, d := range dims {
		n *= d
	}
	return n
}

func nest1(flat []float64) []float64 { return append([]float64(nil), flat...) }

func nest2(flat []float64, d []int) [][]float64 {
	out := make([][]float64, d[0])
	n := d[1]
	for i := range out {
		out[i] = nest1(flat[i*n : (i+1)*n])
	}
	return out
}

func nest3(flat []float64, d []int) [][][]float64 {
	out := make([][][]float64, d[0])
	n := d[1] * d[2]
	for i := range out {
		out[i] = nest2(flat[i*n:(i+1)*n], d[1:])
	}
	return out
}

func nest4(flat []float64, d []int) [][][][]float64 {
	out := make([][][][]float64, d[0])
	n := d[1] * d[2] * d[3]
	for i := range out {
		out[i] = nest3(flat[i*n:(i+1)*n], d[1:])
	}
	return out
}

// New builds a leaf tensor of the given shape and row-major elements. Ranks up
// to 4 go through TensorOf with nested data; higher ranks are built flat,
// reshaped, and turned into a fresh leaf by ResetGradContext.
func New(dims []int, flat []float64, tracked bool) (Tensor, error) {
	t, _, err := NewS(dims, flat, tracked)
	return t, err
}

// Passed remembers the caller-owned slices that were handed to the library in
// one call, so that they can be overwritten afterwards (C10: the library must
// not depend on them any more).
type Passed struct {
	Ints    [][]int
	Ranges  [][]tensor.Range
	Lists   [][]Tensor
	Floats1 [][]float64
}

func (p *Passed) Scribble() {
	if p == nil {
		return
	}
	for _, s := range p.Ints {
		for i := range s {
			s[i] = 7
		}
	}
	for _, s := range p.Ranges {
		for i := range s {
			s[i] = tensor.Range{From: 5, To: 9}
		}
	}
	for _, s := range p.Lists {
		junk, _ := tensor.Full([]int{3}, 99, nil)
		for i := range s {
			s[i] = junk
		}
	}
	for _, s := range p.Floats1 {
		for i := range s {
			s[i] = 7
		}
	}
}

func rows2(d [][]float64, into *Passed) {
	for _, r := range d {
		into.Floats1 = append(into.Floats1, r)
	}
}

// NewS is New that also reports the nested data it passed to TensorOf.
func NewS(dims []int, flat []float64, tracked bool) (Tensor, *Passed, error) {
	if len(flat) != Prod(dims) {
		return nil, nil, fmt.Errorf("bind.New: %d elements for dims %v", len(flat), dims)
	}
	p := &Passed{}
	conf := &tensor.Config{Device: tensor.CPU, GradTrack: tracked}
	switch len(dims) {
	case 0:
		t, err := tensor.TensorOf(flat[0], conf)
		return t, p, err
	case 1:
		d := nest1(flat)
		p.Floats1 = append(p.Floats1, d)
		t, err := tensor.TensorOf(d, conf)
		return t, p, err
	case 2:
		d := nest2(flat, dims)
		rows2(d, p)
		t, err := tensor.TensorOf(d, conf)
		return t, p, err
	case 3:
		d := nest3(flat, dims)
		for _, m := range d {
			rows2(m, p)
		}
		t, err := tensor.TensorOf(d, conf)
		return t, p, err
	case 4:
		d := nest4(flat, dims)
		for _, c := range d {
			for _, m := range c {
				rows2(m, p)
			}
		}
		t, err := tensor.TensorOf(d, conf)
		return t, p, err
	}
	d := nest1(flat)
	p.Floats1 = append(p.Floats1, d)
	t, err := tensor.TensorOf(d, &tensor.Config{Device: tensor.CPU})
	if err != nil {
		return nil, nil, err
	}
	shape := append([]int(nil), dims...)
	p.Ints = append(p.Ints, shape)
	t, err = t.Reshape(shape)
	if err != nil {
		return nil, nil, err
	}
	t.ResetGradContext(tracked)
	return t, p, nil
}

// Unflat converts a 0-based row-major position to a multi-index.
func Unflat(p int, dims []int) []int {
	idx := make([]int, len(dims))
	for i := len(dims) - 1; i >= 0; i-- {
		idx[i] = p % dims[i]
		p /= dims[i]
	}
	return idx
}

// Read returns the shape and all elements of t in row-major order, each read
// through At at its multi-index.
func Read(t Tensor) (dims []int, flat []float64, err error) {
	dims = t.Shape()
	n := Prod(dims)
	flat = make([]float64, n)
	for p := 0; p < n; p++ {
		flat[p], err = t.At(Unflat(p, dims)...)
		if err != nil {
			return nil, nil, fmt.Errorf("bind.Read: At(%v) of shape %v: %w", Unflat(p, dims), dims, err)
		}
	}
	return dims, flat, nil
}

func ranges(index [][2]int) []tensor.Range {
	if index == nil {
		return nil
	}
	out := make([]tensor.Range, len(index))
	for i, r := range index {
		out[i] = tensor.Range{From: r[0], To: r[1]}
	}
	return out
}

// Apply executes the instruction op on the real library.
func Apply(op string, par Par, args []Tensor) (Tensor, error) {
	t, _, err := ApplyS(op, par, args)
	return t, err
}

// ApplyS is Apply that also reports the caller-owned slices it passed.
func ApplyS(op string, par Par, args []Tensor) (Tensor, *Passed, error) {
	return ApplyIn(nil, op, par, args)
}

// ApplyIn is ApplyS with a registry of re-usable component objects.
func ApplyIn(reg *Registry, op string, par Par, args []Tensor) (Tensor, *Passed, error) {
	p := &Passed{}
	cp := func(s []int) []int {
		if s == nil {
			return nil
		}
		if reg != nil && reg.ints != nil {
			k := fmt.Sprint(s)
			if c, ok := reg.ints[k]; ok {
				return c
			}
			c := append([]int{}, s...)
			reg.ints[k] = c
			return c
		}
		c := append([]int{}, s...)
		p.Ints = append(p.Ints, c)
		return c
	}
	ranges := func(index [][2]int) []tensor.Range {
		if index != nil && reg != nil && reg.rngs != nil {
			k := fmt.Sprint(index)
			if r, ok := reg.rngs[k]; ok {
				return r
			}
			r := ranges(index)
			reg.rngs[k] = r
			return r
		}
		r := ranges(index)
		if r != nil {
			p.Ranges = append(p.Ranges, r)
		}
		return r
	}
	t, err := apply(reg, op, par, args, cp, ranges, p)
	return t, p, err
}

func apply(reg *Registry, op string, par Par, args []Tensor, cp func([]int) []int, ranges func([][2]int) []tensor.Range, p *Passed) (Tensor, error) {
	switch op {
	case "full":
		v := par.K.Float()
		if par.NegZ {
			v = math.Copysign(0, -1)
		}
		return tensor.Full(cp(par.Shape), v, nil)
	case "zeros":
		return tensor.Zeros(cp(par.Shape), nil)
	case "ones":
		return tensor.Ones(cp(par.Shape), &tensor.Config{Device: tensor.CPU})
	case "eye":
		return tensor.Eye(par.Dim, nil)
	}
	a := args[0]
	var b Tensor
	if len(args) > 1 {
		b = args[1]
	}
	switch op {
	case "slice":
		return a.Slice(ranges(par.Index))
	case "patch":
		return a.Patch(ranges(par.Index), b)
	case "transpose":
		return a.Transpose()
	case "reshape":
		return a.Reshape(cp(par.Shape))
	case "unsqueeze":
		return a.UnSqueeze(par.Dim)
	case "squeeze":
		return a.Squeeze(par.Dim)
	case "flatten":
		return a.Flatten(par.Dim)
	case "broadcast":
		return a.Broadcast(cp(par.Shape))
	case "concat":
		list := append([]Tensor{}, args...)
		p.Lists = append(p.Lists, list)
		return tensor.Concat(list, par.Dim)
	case "sumalong":
		return a.SumAlong(par.Dim)
	case "maxalong":
		return a.MaxAlong(par.Dim)
	case "minalong":
		return a.MinAlong(par.Dim)
	case "avgalong":
		return a.AvgAlong(par.Dim)
	case "varalong":
		return a.VarAlong(par.Dim)
	case "stdalong":
		return a.StdAlong(par.Dim)
	case "meanalong":
		return a.MeanAlong(par.Dim)
	case "detach":
		// post instruction only: the tensor itself, made an untracked leaf (values are untouched)
		a.ResetGradContext(false)
		return a, nil
	case "scale":
		return a.Scale(par.K.Float()), nil
	case "pow":
		return a.Pow(par.K.Float()), nil
	case "exp":
		return a.Exp(), nil
	case "log":
		return a.Log(), nil
	case "sin":
		return a.Sin(), nil
	case "cos":
		return a.Cos(), nil
	case "tan":
		return a.Tan(), nil
	case "sinh":
		return a.Sinh(), nil
	case "cosh":
		return a.Cosh(), nil
	case "tanh":
		return a.Tanh(), nil
	case "eq":
		return a.Eq(b)
	case "ne":
		return a.Ne(b)
	case "gt":
		return a.Gt(b)
	case "ge":
		return a.Ge(b)
	case "lt":
		return a.Lt(b)
	case "le":
		return a.Le(b)
	case "elmax":
		return a.ElMax(b)
	case "elmin":
		return a.ElMin(b)
	case "add":
		return a.Add(b)
	case "sub":
		return a.Sub(b)
	case "mul":
		return a.Mul(b)
	case "div":
		return a.Div(b)
	case "dot":
		return a.Dot(b)
	case "matmul":
		return a.MatMul(b)

	/* components */
	case "relu", "leakyrelu", "sigmoid", "tanhact", "softmax":
		o, err := reg.get(par.Inst, func() (any, error) {
			switch op {
			case "relu":
				return activations.NewRelu(), nil
			case "leakyrelu":
				var conf *activations.LeakyReluConfig
				if par.K != nil && !par.Nil {
					conf = &activations.LeakyReluConfig{M: par.K.Float()}
				}
				l := activations.NewLeakyRelu(conf)
				if conf != nil {
					conf.M = 12345 // the caller's config struct is the caller's: overwrite it after construction
				}
				return l, nil
			case "sigmoid":
				return activations.NewSigmoid(), nil
			case "tanhact":
				return activations.NewTanh(), nil
			}
			var conf *activations.SoftmaxConfig
			if !par.Nil {
				conf = &activations.SoftmaxConfig{Dim: par.Dim}
			}
			l, err := activations.NewSoftmax(conf)
			if err != nil {
				return nil, err
			}
			if conf != nil {
				conf.Dim = 5
			}
			return l, nil
		})
		if err != nil {
			return nil, err
		}
		return o.(forwarder).Forward(a)
	case "mse", "bce", "ce":
		o, _ := reg.get(par.Inst, func() (any, error) {
			switch op {
			case "mse":
				return losses.NewMSE(), nil
			case "bce":
				return losses.NewBCE(), nil
			}
			return losses.NewCE(), nil
		})
		return o.(computer).Compute(a, b)
	case "sgd":
		// args: the tensor to update (it must hold a gradient); result: the tensor behind the pointer afterwards
		var conf *optimizers.SGDConfig
		if !par.Nil {
			conf = &optimizers.SGDConfig{LearningRate: par.K.Float()}
		}
		o, err := reg.get(par.Inst, func() (any, error) {
			opt := optimizers.NewSGD(conf)
			if conf != nil {
				conf.LearningRate = 12345 // overwritten after construction: the optimizer must keep the rate it was built with
			}
			return &sgdSlot{opt: opt}, nil
		})
		if err != nil {
			return nil, err
		}
		// one optimizer object comes with ONE pointer variable, re-bound to whatever tensor is updated next
		slot := o.(*sgdSlot)
		slot.w = a
		if err := slot.opt.Update(&slot.w); err != nil {
			return nil, err
		}
		return slot.w, nil
	case "fc":
		// args: W, B, x; the layer is constructed with default initializers and its
		// parameters replaced through the Weights() pointers
		w, bias, x := args[0], args[1], args[2]
		feat := 1
		if sh := x.Shape(); len(sh) > 0 {
			feat = sh[len(sh)-1]
		}
		o, err := reg.get(par.Inst, func() (any, error) {
			conf := &layers.FCConfig{Inputs: feat, Outputs: w.Shape()[0]}
			l, err := layers.NewFC(conf)
			if err != nil {
				return nil, err
			}
			conf.Inputs, conf.Outputs = 77, 78 // the config struct is the caller's
			return l, nil
		})
		if err != nil {
			return nil, err
		}
		fc := o.(*layers.FC)
		ws := fc.Weights()
		if *ws[0].Value != w {
			*ws[0].Value = w
		}
		if *ws[1].Value != bias {
			*ws[1].Value = bias
		}
		return fc.Forward(x)
	}
	return nil, fmt.Errorf("bind.Apply: unknown op %q", op)
}

// Stat calls one of the float-returning whole-tensor reducers.
func Stat(op string, t Tensor) float64 {
	switch op {
	case "sum":
		return t.Sum()
	case "max":
		return t.Max()
	case "min":
		return t.Min()
	case "avg":
		return t.Avg()
	case "mean":
		return t.Mean()
	case "var":
		return t.Var()
	case "std":
		return t.Std()
	case "nelems":
		return float64(t.NElems())
	}
	panic("bind.Stat: unknown " + op)
}

// Ctx projects the abstract gradient-context state through the verif hooks.
type Ctx struct {
	Tracked, Spent, HasGrad bool
	Edges                   int
}

func Context(t Tensor) Ctx {
	tr, sp, hg, e := tensor.VerifState(t)
	return Ctx{Tracked: tr, Spent: sp, HasGrad: hg, Edges: e}
}

// CrossRead reads a tensor through independent routes and requires them to agree with the elements
// read through At: the whole-tensor reductions (which walk the stored data rather than the shape),
// Reshape to a flat vector, Slice(nil), and Equals against a freshly built tensor of the same values.
func CrossRead(t tensor.Tensor, dims []int, flat []float64) string {
	n := len(flat)
	finite := true
	sum, mx, mn, mag := 0.0, math.Inf(-1), math.Inf(1), 0.0
	for _, v := range flat {
		if math.IsNaN(v) || math.IsInf(v, 0) {
			finite = false
		}
		sum += v
		mag += math.Abs(v)
		mx = math.Max(mx, v)
		mn = math.Min(mn, v)
	}
	if finite && !math.IsInf(mag, 0) {
		if got := t.Sum(); math.Abs(got-sum) > 1e-9*mag+1e-300 {
			return fmt.Sprintf("Sum() = %v but the elements read through At add up to %v (hidden elements?)", got, sum)
		}
		if got := t.Max(); got != mx {
			return fmt.Sprintf("Max() = %v but the largest element read through At is %v", got, mx)
		}
		if got := t.Min(); got != mn {
			return fmt.Sprintf("Min() = %v but the smallest element read through At is %v", got, mn)
		}
	}
	r, err := t.Reshape([]int{n})
	if err != nil {
		return fmt.Sprintf("Reshape([%d]) of a result failed: %v", n, err)
	}
	for i := 0; i < n; i++ {
		v, err := r.At(i)
		if err != nil {
			return fmt.Sprintf("At(%d) of the flattened result failed: %v", i, err)
		}
		if math.Float64bits(v) != math.Float64bits(flat[i]) && !(math.IsNaN(v) && math.IsNaN(flat[i])) {
			return fmt.Sprintf("element %d read through Reshape is %v, through At %v", i, v, flat[i])
		}
	}
	cp, err := t.Slice(nil)
	if err != nil {
		return fmt.Sprintf("Slice(nil) of a result failed: %v", err)
	}
	_, cflat, err := Read(cp)
	if err != nil {
		return err.Error()
	}
	for i := range cflat {
		if math.Float64bits(cflat[i]) != math.Float64bits(flat[i]) && !(math.IsNaN(cflat[i]) && math.IsNaN(flat[i])) {
			return fmt.Sprintf("element %d of Slice(nil) is %v, of the tensor %v", i, cflat[i], flat[i])
		}
	}
	if finite {
		fresh, err := New(dims, flat, false)
		if err == nil {
			if eq, err := t.Equals(fresh); err != nil || !eq {
				return fmt.Sprintf("Equals against a fresh tensor holding the same elements: %v %v", eq, err)
			}
		}
	}
	return ""
}
