// qvrace runs the concurrent programs of spec/Conc.tla with real goroutines.
// It is built with -race; a detected data race makes the Go runtime print
// "WARNING: DATA RACE" and exit with status 66.
package main

import (
	"encoding/json"
	"fmt"
	"os"
	"strconv"

	"qeepverif/internal/conc"
)

func main() {
	if len(os.Args) < 4 {
		fmt.Fprintln(os.Stderr, "usage: qvrace <menu.json> <ng> <rounds>")
		os.Exit(2)
	}
	b, err := os.ReadFile(os.Args[1])
	if err != nil {
		fmt.Fprintln(os.Stderr, err)
		os.Exit(2)
	}
	var m conc.Menu
	if err := json.Unmarshal(b, &m); err != nil {
		fmt.Fprintln(os.Stderr, err)
		os.Exit(2)
	}
	if u, err := strconv.Atoi(os.Getenv("QV_UNIVERSE")); err == nil {
		conc.Universe = u
	}
	ng, _ := strconv.Atoi(os.Args[2])
	rounds, _ := strconv.Atoi(os.Args[3])
	n := len(m.Menu)
	total := 1
	for i := 0; i < ng; i++ {
		total *= n
	}
	// optional: only the assignments first..last (one process per assignment: package-level state of the library,
	// such as buffers that grow on first use, is then fresh for every assignment)
	first, last := 0, total-1
	if len(os.Args) >= 6 {
		first, _ = strconv.Atoi(os.Args[4])
		last, _ = strconv.Atoi(os.Args[5])
	}
	runs := 0
	for a := first; a <= last && a < total; a++ {
		progs := make([][]conc.Instr, ng)
		x := a
		for g := 0; g < ng; g++ {
			progs[g] = m.Menu[x%n]
			x /= n
		}
		if d := conc.RunConcurrent(progs, rounds); d != "" {
			fmt.Printf("MISMATCH assignment=%d %s\n", a, d)
			os.Exit(3)
		}
		runs += rounds
	}
	fmt.Printf("OK assignments=%d concurrent_runs=%d\n", last-first+1, runs)
}
