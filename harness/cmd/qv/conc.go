package main

import (
	"bytes"
	"encoding/json"
	"fmt"
	"os"
	"os/exec"
	"path/filepath"
	"strconv"
	"strings"
	"sync"
	"time"

	"qeepverif/internal/conc"
	"qeepverif/internal/run"

	"github.com/sahandsafizadeh/qeep/tensor"
)

func concCfg(c *run.Ctx, name string, ng int, proviso bool, menu string) string {
	p := "TRUE"
	if !proviso {
		p = "FALSE"
	}
	s := fmt.Sprintf("SPECIFICATION Spec\nCONSTANTS\n  NG = %d\n  Proviso = %s\n  Menu <- %s\nVIEW View\nINVARIANTS NoRace Deterministic SharedUntouched\nCHECK_DEADLOCK FALSE\n", ng, p, menu)
	os.WriteFile(filepath.Join(c.Work, name), []byte(s), 0o644)
	return name
}

// writeSetCheck runs every menu program alone and compares, instruction by instruction, which
// pre-existing tensors changed with the write footprint of the specification; the final flags of
// the program's tensors must be the specification's sequential view.
func writeSetCheck(m *conc.Menu) string {
	return run.Guard(func() string { return writeSetCheck0(m) })
}

func writeSetCheck0(m *conc.Menu) string {
	for pi, p := range m.Menu {
		sh := conc.NewShared()
		heap := []tensor.Tensor{sh.S[0], sh.S[1], sh.S[2], sh.S[3], sh.S[4], sh.S[5]}
		var local []tensor.Tensor
		for ii, in := range p {
			before := make([]conc.Digest, len(heap))
			for k, t := range heap {
				before[k] = conc.DigestOf(t)
			}
			t, err := conc.Step(sh, local, in)
			if err != nil {
				return fmt.Sprintf("HARNESS: program %d instruction %d: %v", pi+1, ii+1, err)
			}
			allowed := map[int]bool{}
			for _, id := range m.Writes[pi][ii] {
				allowed[id] = true
			}
			for k, tt := range heap {
				after := conc.DigestOf(tt)
				if !after.Equal(before[k], true) && !allowed[k+1] {
					return fmt.Sprintf("program %d instruction %d (%s): tensor %d was written (%+v -> %+v) but is outside the call's write footprint %v", pi+1, ii+1, in.Kind, k+1, before[k], after, m.Writes[pi][ii])
				}
				if fmt.Sprint(after.Bits) != fmt.Sprint(before[k].Bits) {
					return fmt.Sprintf("program %d instruction %d (%s): the VALUE of tensor %d changed", pi+1, ii+1, in.Kind, k+1)
				}
			}
			if t != nil {
				heap = append(heap, t)
				local = append(local, t)
			}
		}
		for j, t := range local {
			d := conc.DigestOf(t)
			v := m.Views[pi][j]
			if d.Tracked != v.Tracked || d.Spent != v.Spent || d.HasGrad != v.HasGrad {
				return fmt.Sprintf("program %d: tensor %d ends (tracked,spent,hasGrad)=(%v,%v,%v), specification (%v,%v,%v)", pi+1, j+1, d.Tracked, d.Spent, d.HasGrad, v.Tracked, v.Spent, v.HasGrad)
			}
		}
	}
	return ""
}

// runRace runs all assignments in one process, except with 2 goroutines and in universe 2 (large tensors), where every
// assignment gets a process of its own (6 at a time), so that package-level state of the library (pools, buffers that
// grow on first use, lazily initialised caches) is fresh when the goroutines first race on it.
func runRace(bin, menu string, universe, ng, rounds, nprogs int) (out string, code int, err error) {
	if universe != 2 && ng != 2 {
		return runRace1(bin, menu, universe, ng, rounds, -1)
	}
	total := 1
	for i := 0; i < ng; i++ {
		total *= nprogs
	}
	type res struct {
		out  string
		code int
		err  error
	}
	results := make([]res, total)
	jobs := make(chan int)
	var wg sync.WaitGroup
	for w := 0; w < 6; w++ {
		wg.Add(1)
		go func() {
			defer wg.Done()
			for a := range jobs {
				o, c, e := runRace1(bin, menu, universe, ng, rounds, a)
				results[a] = res{o, c, e}
			}
		}()
	}
	for a := 0; a < total; a++ {
		jobs <- a
	}
	close(jobs)
	wg.Wait()
	nr := 0
	for _, r := range results {
		if r.err != nil || r.code != 0 || !strings.Contains(r.out, "OK assignments=") {
			return r.out, r.code, r.err
		}
		nr += rounds
	}
	return fmt.Sprintf("OK assignments=%d concurrent_runs=%d\n", total, nr), 0, nil
}

func runRace1(bin, menu string, universe, ng, rounds, only int) (out string, code int, err error) {
	args := []string{menu, strconv.Itoa(ng), strconv.Itoa(rounds)}
	if only >= 0 {
		args = append(args, strconv.Itoa(only), strconv.Itoa(only))
	}
	cmd := exec.Command(bin, args...)
	cmd.Env = append(os.Environ(), fmt.Sprintf("QV_UNIVERSE=%d", universe))
	var buf bytes.Buffer
	cmd.Stdout = &buf
	cmd.Stderr = &buf
	cmd.Env = append(cmd.Env, "GORACE=halt_on_error=0 exitcode=66")
	e := cmd.Run()
	if e != nil {
		if ee, ok := e.(*exec.ExitError); ok {
			return buf.String(), ee.ExitCode(), nil
		}
		return buf.String(), -1, e
	}
	return buf.String(), 0, nil
}

// libraryCrash: the process died of a panic raised inside the library (first frame of the panicking goroutine is library
// code), or of the runtime's own detection of unsynchronised map access. A panic in harness code is not one.
func libraryCrash(out string) bool {
	if strings.Contains(out, "fatal error: concurrent map") {
		return true
	}
	i := strings.Index(out, "\npanic: ")
	if i < 0 {
		return false
	}
	rest := out[i:]
	j := strings.Index(rest, "[running]:")
	if j < 0 {
		return false
	}
	lines := strings.SplitN(rest[j:], "\n", 3)
	return len(lines) >= 2 && strings.Contains(lines[1], "github.com/sahandsafizadeh/qeep/")
}

func init() {
	register("C20", "model_checking", func(c *run.Ctx) error {
		c.Rule = "TLC explores every Begin/End interleaving of 2 (thorough: also 3 and 4) goroutines, each running any program of the menu (8 programs; the first 6 with 4 goroutines: forward chains over every operation family, activation and loss evaluation and graph construction on a shared TRACKED parameter and a shared UNTRACKED tensor; private graphs over the shared untracked tensor that are back-propagated, reset and re-used; random constructors) and checks NoRace (no in-flight write meets another in-flight read or write), Deterministic (every goroutine's tensors end as in its sequential run) and SharedUntouched; with the proviso switched off and a program that back-propagates through the shared parameter TLC must find the race (non-vacuity). Binding: (i) every program is run alone and the set of pre-existing tensors each call changes (values bit-for-bit, flags, gradient) must lie inside the specification's write footprint; (ii) every assignment of programs to goroutines is executed with real goroutines in a binary built with Go's race detector, many rounds, and each goroutine's results must equal the sequential ones bit-for-bit; distinct = distinct (assignment, round)"
		c.Assumptions = []string{"the effect of a call is applied atomically at End in the model; this is justified by NoRace itself", "read footprints are bound to the code only through the race detector (a runtime monitor inside the conformance step); write footprints by sequential differencing", "the random source is lock-protected (gonum / x/exp/rand locked source); values of random tensors are not compared"}
		ngs := []int{2}
		if c.Thorough {
			ngs = []int{2, 3, 4} // 3600 / 216000 / 12.96 M distinct states under the canonical view (measured; 4 goroutines: about 8 min)
		}
		for _, ng := range ngs {
			menu := "MC_Menu8"
			if ng >= 4 {
				menu = "MC_Menu" // 8 programs and 4 goroutines would be ~80 M states
			}
			cfg := concCfg(c, fmt.Sprintf("conc%d.cfg", ng), ng, true, menu)
			c.Logf("TLC model checking Conc with %d goroutines", ng)
			res, err := c.MustTLC(run.TLCOpts{Module: "MC_Conc", Config: cfg, Workers: 16, HeapMB: 24000, Timeout: 40 * time.Minute, Tag: fmt.Sprintf("conc%d", ng)})
			if err != nil {
				return err
			}
			c.States += res.Distinct
			c.Transitions += res.Generated
			c.AddExtra(fmt.Sprintf("mc_conc_%d", ng), fmt.Sprintf("%d goroutines: %d distinct states, NoRace / Deterministic / SharedUntouched hold", ng, res.Distinct))
			if ng == 2 {
				var menuJSON string
				for _, line := range strings.Split(res.Out, "\n") {
					if strings.HasPrefix(line, "\"{") {
						menuJSON, _ = strconv.Unquote(line)
					}
				}
				if menuJSON == "" {
					return run.Brokenf("the specification did not emit its menu")
				}
				os.WriteFile(filepath.Join(c.Work, "menu.json"), []byte(menuJSON), 0o644)
			}
		}
		// non-vacuity: without the proviso the model must contain a race
		cfg := concCfg(c, "concbad.cfg", 2, false, "MC_MenuBad")
		res, err := c.TLC(run.TLCOpts{Module: "MC_Conc", Config: cfg, Workers: 4, Timeout: 10 * time.Minute, Tag: "concbad"})
		if err != nil {
			return err
		}
		if !strings.Contains(res.Out, "Invariant NoRace is violated") {
			return run.Brokenf("with the proviso off TLC did not find the expected race: the model is vacuous\n%s", run.Tail(res.Out, 20))
		}
		c.AddExtra("non_vacuity", "with Proviso = FALSE and a program back-propagating through the shared parameter TLC reports NoRace violated")

		var m conc.Menu
		b, _ := os.ReadFile(filepath.Join(c.Work, "menu.json"))
		if err := json.Unmarshal(b, &m); err != nil {
			return run.Brokenf("menu: %v", err)
		}
		c.Logf("write-set differencing of %d programs in 3 shape universes", len(m.Menu))
		for u := 0; u < 3; u++ {
			conc.Universe = u
			if d := writeSetCheck(&m); d != "" {
				if strings.HasPrefix(d, "HARNESS") {
					return run.Brokenf("universe %d: %s", u, d)
				}
				if d2 := writeSetCheck(&m); d2 != "" {
					c.Violate(fmt.Sprintf("sequential write-set differencing (universe %d): %s", u, d), map[string]any{"conc": "writeset", "universe": u, "detail": d})
				}
			}
		}
		conc.Universe = 0
		for pi := range m.Menu {
			c.Count(fmt.Sprintf("seq-%d", pi), true)
		}

		c.Logf("building the concurrent runner with the race detector")
		bin := filepath.Join(c.Work, "qvrace")
		build := exec.Command("go", "build", "-race", "-tags", "verif", "-o", bin, "./cmd/qvrace")
		build.Dir = filepath.Join(run.VerifDir, "harness")
		if d := os.Getenv("QV_HARNESS_DIR"); d != "" {
			build.Dir = d
		}
		build.Env = append(os.Environ(), "CGO_ENABLED=1")
		if out, err := build.CombinedOutput(); err != nil {
			return run.Brokenf("race-detector build failed: %v\n%s", err, out)
		}
		// {universe, goroutines, rounds}; universes: 0 = [2,2] tensors, 1 = [3,2,2] (rank-3 accessors), 2 = [64,64] (4096 elements)
		plans := [][3]int{{0, 2, 40}, {0, 3, 4}, {1, 2, 20}, {1, 3, 2}, {2, 2, 1}}
		if c.Thorough {
			plans = [][3]int{{0, 2, 1500}, {0, 3, 120}, {0, 4, 6}, {1, 2, 600}, {1, 3, 40}, {2, 2, 30}, {2, 3, 2}}
		}
		for _, pl3 := range plans {
			universe := pl3[0]
			pl := [2]int{pl3[1], pl3[2]}
			c.Logf("universe %d: %d goroutines x all assignments x %d rounds under the race detector", universe, pl[0], pl[1])
			out, code, err := runRace(bin, filepath.Join(c.Work, "menu.json"), universe, pl[0], pl[1], len(m.Menu))
			if err != nil {
				return run.Brokenf("race runner: %v", err)
			}
			race := strings.Contains(out, "DATA RACE") || code == 66
			crash := libraryCrash(out)
			if race || code == 3 || crash {
				// reproduce before it counts
				out2, code2, _ := runRace(bin, filepath.Join(c.Work, "menu.json"), universe, pl[0], pl[1], len(m.Menu))
				if strings.Contains(out2, "DATA RACE") || code2 == 66 || code2 == 3 || libraryCrash(out2) {
					what := "results differ from the sequential run"
					if crash {
						what = "the library panics in the concurrent phase (the sequential run of the same programs does not)"
					}
					if race {
						what = "the race detector reports a data race"
					}
					c.Violate(fmt.Sprintf("%d goroutines: %s\n%s", pl[0], what, run.Tail(out, 30)), map[string]any{"conc": "race", "universe": universe, "ng": pl[0], "rounds": pl[1], "menu": json.RawMessage(b), "output": run.Tail(out, 60)})
				} else {
					c.AddExtra("unreproduced_race_report", run.Tail(out, 20))
				}
				continue
			}
			if code != 0 || !strings.Contains(out, "OK assignments=") {
				return run.Brokenf("race runner failed (exit %d):\n%s", code, run.Tail(out, 20))
			}
			var na, nr int
			fmt.Sscanf(out[strings.Index(out, "OK assignments="):], "OK assignments=%d concurrent_runs=%d", &na, &nr)
			for i := 0; i < nr; i++ {
				c.Count(fmt.Sprintf("conc-%d-%d-%d", universe, pl[0], i), true)
			}
			c.Traces += nr
			c.AddExtra(fmt.Sprintf("concurrent_runs_universe_%d_%d_goroutines", universe, pl[0]), fmt.Sprintf("%d assignments, %d concurrent executions, no race report, results identical to sequential", na, nr))
		}
		c.Sample(map[string]any{"menu_program": m.Menu[1], "write_footprints": m.Writes[1], "final_view": m.Views[1]})
		c.Sample(map[string]any{"menu_program": m.Menu[3], "write_footprints": m.Writes[3], "final_view": m.Views[3]})
		return nil
	})
	replayers["C20"] = func(path string, w json.RawMessage) int {
		fmt.Println("C20 witnesses are re-checked by running bin/check C20 again (the race detector decides on a rebuilt binary)")
		return 2
	}
}
