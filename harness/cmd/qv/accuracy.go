package main

import (
	"bufio"
	"encoding/json"
	"fmt"
	"math"
	"math/rand"
	"os"
	"os/exec"
	"path/filepath"
	"strconv"
	"strings"
	"time"

	"qeepverif/internal/bind"
	"qeepverif/internal/run"

	"github.com/sahandsafizadeh/qeep/component/metrics"
	"github.com/sahandsafizadeh/qeep/tensor"
)

// label ids of the specification stand for arbitrary float labels
var labelValue = []float64{0, 1, 2, -1.5, 3.25, 1e10}

type accBeh struct {
	P       []json.RawMessage `json:"p"`
	Total   int               `json:"total"`
	Correct int               `json:"correct"`
}

type accCall struct {
	Kind string
	P, T []int
	Bad  string
}

func parseAccCall(raw json.RawMessage) (accCall, error) {
	var parts []json.RawMessage
	if err := json.Unmarshal(raw, &parts); err != nil {
		return accCall{}, err
	}
	var c accCall
	json.Unmarshal(parts[0], &c.Kind)
	if c.Kind == "acc" {
		if err := json.Unmarshal(parts[1], &c.P); err != nil {
			return c, err
		}
		return c, json.Unmarshal(parts[2], &c.T)
	}
	return c, json.Unmarshal(parts[1], &c.Bad)
}

func labels(ids []int) tensor.Tensor { return labelsZ(ids, false) }

// labelsZ: with negZero the label whose value is 0 is written as -0.0 (the same number: it must still match +0.0)
func labelsZ(ids []int, negZero bool) tensor.Tensor {
	v := make([]float64, len(ids))
	for i, id := range ids {
		v[i] = labelValue[id]
		if negZero && v[i] == 0 {
			v[i] = math.Copysign(0, -1)
		}
	}
	t, _ := bind.New([]int{len(ids)}, v, false)
	return t
}

// accExec runs a history on a fresh metric; returns the final Result and a description of the first deviation.
func accExec(calls []accCall) (float64, string) {
	m := metrics.NewAccuracy()
	res := func() (float64, string) {
		r, err := m.Result()
		if err != nil {
			return 0, "Result returned an error: " + err.Error()
		}
		return r, ""
	}
	for i, c := range calls {
		before, d := res()
		if d != "" {
			return 0, d
		}
		switch c.Kind {
		case "acc":
			yp, yt := labels(c.P), labelsZ(c.T, i%3 == 1)
			if fmt.Sprint(c.P) == fmt.Sprint(c.T) && i%2 == 0 {
				yt = yp // equal batches: every other time the very same tensor object in both slots
			}
			if err := m.Accumulate(yp, yt); err != nil {
				return 0, fmt.Sprintf("call %d: valid batch rejected: %v", i, err)
			}
		case "bad":
			one, two := labels([]int{1, 2}), labels([]int{1, 2, 0})
			var err error
			switch c.Bad {
			case "nil-pred":
				err = m.Accumulate(nil, one)
			case "nil-target":
				err = m.Accumulate(one, nil)
			case "rank0":
				s, _ := bind.New([]int{}, []float64{1}, false)
				err = m.Accumulate(s, s)
			case "rank2":
				s, _ := bind.New([]int{2, 1}, []float64{1, 1}, false)
				err = m.Accumulate(s, s)
			case "length-mismatch":
				err = m.Accumulate(one, two)
			}
			if err == nil {
				return 0, fmt.Sprintf("call %d: invalid call (%s) accepted", i, c.Bad)
			}
			after, d := res()
			if d != "" {
				return 0, d
			}
			if after != before {
				return 0, fmt.Sprintf("call %d: rejected call (%s) changed Result from %v to %v", i, c.Bad, before, after)
			}
		}
	}
	return res()
}

func accReplay(b *accBeh, rng *rand.Rand) string {
	return run.Guard(func() string { return accReplay0(b, rng) })
}

func accReplay0(b *accBeh, rng *rand.Rand) string {
	calls := make([]accCall, len(b.P))
	for i, raw := range b.P {
		c, err := parseAccCall(raw)
		if err != nil {
			return "HARNESS: " + err.Error()
		}
		calls[i] = c
	}
	got, d := accExec(calls)
	if d != "" {
		return d
	}
	want := 0.0
	if b.Total > 0 {
		want = float64(b.Correct) / float64(b.Total)
	}
	if got != want {
		return fmt.Sprintf("Result is %v, specification %d/%d = %v", got, b.Correct, b.Total, want)
	}
	if got < 0 || got > 1 || math.IsNaN(got) {
		return fmt.Sprintf("Result %v outside [0,1]", got)
	}
	// partition invariance: the same accepted data split differently gives the same Result
	var allP, allT []int
	for _, c := range calls {
		if c.Kind == "acc" {
			allP = append(allP, c.P...)
			allT = append(allT, c.T...)
		}
	}
	for k := 0; k < 3 && len(allP) > 0; k++ {
		var re []accCall
		for i := 0; i < len(allP); {
			n := 1 + rng.Intn(len(allP)-i)
			if k == 0 {
				n = len(allP)
			}
			re = append(re, accCall{Kind: "acc", P: allP[i : i+n], T: allT[i : i+n]})
			i += n
			if rng.Intn(3) == 0 {
				re = append(re, accCall{Kind: "bad", Bad: []string{"nil-pred", "rank0", "length-mismatch", "rank2", "nil-target"}[rng.Intn(5)]})
			}
		}
		got2, d := accExec(re)
		if d != "" {
			return "re-partitioned history: " + d
		}
		if got2 != got {
			return fmt.Sprintf("Result depends on the partition: %v for the original calls, %v for another split of the same data", got, got2)
		}
	}
	return ""
}

func accReplayOutput(c *run.Ctx, out string, tag string) (int, error) {
	sc := bufio.NewScanner(strings.NewReader(out))
	sc.Buffer(make([]byte, 1<<20), 1<<26)
	rng := rand.New(rand.NewSource(c.Seed))
	n := 0
	for sc.Scan() {
		line := sc.Text()
		if !strings.HasPrefix(line, "\"{") {
			continue
		}
		s, err := strconv.Unquote(line)
		if err != nil {
			return n, run.Brokenf("dump line: %v", err)
		}
		var b accBeh
		if err := json.Unmarshal([]byte(s), &b); err != nil {
			return n, run.Brokenf("dump line: %v", err)
		}
		d := accReplay(&b, rng)
		n++
		if strings.HasPrefix(d, "HARNESS") {
			return n, run.Brokenf("%s", d)
		}
		if d != "" {
			c.Violate(fmt.Sprintf("accuracy history of %d calls: %s", len(b.P), d), map[string]any{"accuracy": b, "detail": d})
		}
		c.Count(tag+string(mustJSON(b.P)), len(b.P) >= 2)
		if n%997 == 1 {
			c.Sample(map[string]any{"history": b.P, "total": b.Total, "correct": b.Correct})
		}
	}
	return n, nil
}

func mustJSON(v any) []byte {
	b, _ := json.Marshal(v)
	return b
}

func init() {
	register("C19", "model_checking", func(c *run.Ctx) error {
		c.Rule = "TLC explores spec/Accuracy.tla exhaustively (all histories of Accumulate calls with batches up to MaxBatch over the label set, interleaved with the five kinds of invalid calls, up to MaxSeen positions) with the invariants MatchedOverTotal (counters = matched/total of the CONCATENATION of the accepted batches, i.e. partition invariance), Bounds and the action property RejectedChangesNothing; every transition of the counter-abstracted graph (VIEW) is dumped with a witness history and replayed on the real metric: Result must equal correct/total exactly, rejected calls must leave Result unchanged, and three random re-partitions of the same data (with invalid calls interleaved) must give the same Result; long random histories come from TLC -simulate; distinct = distinct histories; non-trivial = at least two calls"
		c.Assumptions = []string{"label ids of the specification are mapped to the floats 0, 1, 2, -1.5, 3.25, 1e10 (differences far above the library's equality tolerance)", "Result is the only observable of the counters"}
		seen := 5
		sims := 60
		if c.Thorough {
			seen = 6 // 7 is 16.1 M states and 15 minutes (measured); 6 keeps the tier within minutes
			sims = 3000
		}
		cfg := fmt.Sprintf("SPECIFICATION Spec\nCONSTANTS\n  Labels = {0, 1, 2}\n  MaxBatch = 3\n  MaxSeen = %d\n  MaxBad = 2\nVIEW ViewFull\nINVARIANTS MatchedOverTotal Bounds\nPROPERTIES RejectedChangesNothing\nCHECK_DEADLOCK FALSE\n", seen)
		os.WriteFile(filepath.Join(c.Work, "mc_acc.cfg"), []byte(cfg), 0o644)
		c.Logf("TLC model checking Accuracy (MaxSeen=%d)", seen)
		res, err := c.MustTLC(run.TLCOpts{Module: "Accuracy", Config: "mc_acc.cfg", Workers: 16, HeapMB: 16000, Timeout: 30 * time.Minute, Tag: "mc-acc"})
		if err != nil {
			return err
		}
		c.States += res.Distinct
		c.Transitions += res.Generated
		c.AddExtra("mc_accuracy", fmt.Sprintf("Labels={0,1,2} MaxBatch=3 MaxSeen=%d MaxBad=2: %d distinct states, invariants and action property hold", seen, res.Distinct))
		c.Logf("TLC dumping the transitions of the counter-abstracted graph")
		res, err = c.MustTLC(run.TLCOpts{Module: "Accuracy", Config: "Gen_Accuracy.cfg", Workers: 1, Timeout: 10 * time.Minute, Tag: "gen-acc"})
		if err != nil {
			return err
		}
		n, err := accReplayOutput(c, res.Out, "g")
		if err != nil {
			return err
		}
		c.Logf("TLC simulating %d long histories", sims)
		res, err = c.MustTLC(run.TLCOpts{Module: "Accuracy", Config: "Sim_Accuracy.cfg", Workers: 1, Timeout: 20 * time.Minute, Tag: "sim-acc",
			Args: []string{"-simulate", fmt.Sprintf("num=%d", sims), "-depth", "80", "-seed", strconv.FormatInt(c.Seed, 10)}})
		if err != nil {
			return err
		}
		m, err := accReplayOutput(c, res.Out, "s")
		if err != nil {
			return err
		}
		if n == 0 || m == 0 {
			return run.Brokenf("TLC produced no accuracy behaviours (%d dumped, %d simulated)", n, m)
		}
		// unbounded sizes and history length for the numeric part: an inductive invariant discharged by Apalache
		for _, ob := range [][2]string{{"Init", "0"}, {"IndInit", "1"}} {
			out := filepath.Join(c.Work, "apalache-"+ob[0])
			cmd := exec.Command("timeout", "300", "apalache-mc", "check", "--init="+ob[0], "--inv=IndInv", "--length="+ob[1], "--out-dir="+out, "AccuracyInd.tla")
			cmd.Dir = c.Work
			b, err := cmd.CombinedOutput()
			if err != nil || !strings.Contains(string(b), "EXITCODE: OK") {
				return run.Brokenf("Apalache did not discharge the obligation %s => IndInv (length %s):\n%s", ob[0], ob[1], run.Tail(string(b), 15))
			}
		}
		c.AddExtra("apalache_inductive_invariant", "AccuracyInd.tla: Init => IndInv and IndInv /\\ Next => IndInv' discharged (0 <= correct <= total for batches of any size and any number of calls)")
		// every (batch size, number of matches) up to 64 (96)
		files, err := c.Generate("Gen_C19", 1, 20*time.Minute)
		if err != nil {
			return err
		}
		nk := 0
		rng := rand.New(rand.NewSource(c.Seed))
		err = run.ReadLines(files, func(line []byte) error {
			var cs struct {
				N, K                             int
				P, T                             []int
				Total, Correct, Total2, Correct2 int
			}
			if err := json.Unmarshal(line, &cs); err != nil {
				return run.Brokenf("case: %v", err)
			}
			perm := rng.Perm(cs.N)
			p, t := make([]int, cs.N), make([]int, cs.N)
			for i, j := range perm {
				p[i], t[i] = cs.P[j], cs.T[j]
			}
			first := accCall{Kind: "acc", P: []int{1, 2, 0, 1, 2}, T: []int{1, 2, 1, 2, 0}}
			cut := 1 + rng.Intn(cs.N)
			hist := [][]accCall{
				{{Kind: "acc", P: p, T: t}},
				{first, {Kind: "bad", Bad: "length-mismatch"}, {Kind: "acc", P: p, T: t}},
				{{Kind: "acc", P: p[:cut], T: t[:cut]}, {Kind: "bad", Bad: "rank2"}, {Kind: "acc", P: p[cut:], T: t[cut:]}},
			}
			want := []float64{float64(cs.Correct) / float64(cs.Total), float64(cs.Correct2) / float64(cs.Total2), float64(cs.Correct) / float64(cs.Total)}
			for h, calls := range hist {
				if h == 2 && cut == cs.N {
					continue
				}
				var got float64
				d := run.Guard(func() string {
					var dd string
					got, dd = accExec(calls)
					return dd
				})
				if d == "" && got != want[h] {
					d = fmt.Sprintf("Result is %v, specification %v", got, want[h])
				}
				if d != "" {
					c.Violate(fmt.Sprintf("accuracy with a batch of %d items of which %d match (history form %d): %s", cs.N, cs.K, h, d), map[string]any{"accuracy_nk": cs, "detail": d})
					return nil
				}
			}
			nk++
			c.Count(fmt.Sprintf("nk-%d-%d", cs.N, cs.K), true)
			return nil
		})
		if err != nil {
			return err
		}
		c.AddExtra("batch_size_grid", fmt.Sprintf("%d (size, matches) pairs, each as a single call, after another batch and a rejected call, and split in two", nk))
		c.Traces += n + m
		c.AddExtra("behaviours_replayed", fmt.Sprintf("%d transitions of the exhaustive graph + %d prefixes of simulated histories up to 80 calls", n, m))
		return nil
	})
}
