package main

import (
	"bufio"
	"encoding/json"
	"fmt"
	"math"
	"math/rand"
	"os"
	"os/exec"
	"path/filepath"
	"strconv"
	"strings"
	"time"

	"qeepverif/internal/bind"
	"qeepverif/internal/run"
	"qeepverif/internal/sym"
	"qeepverif/internal/term"

	"github.com/sahandsafizadeh/qeep/component/layers"
	"github.com/sahandsafizadeh/qeep/component/layers/activations"
	"github.com/sahandsafizadeh/qeep/component/losses"
	"github.com/sahandsafizadeh/qeep/component/optimizers"
	"github.com/sahandsafizadeh/qeep/tensor"
)

/* ------------------ replay of the Train protocol machine ------------------ */

type trainParam struct {
	Val   []*term.T `json:"val"`
	ValA  []*term.T `json:"valA"`
	Ctx   string    `json:"ctx"`
	Grad  []*term.T `json:"grad"`
	GradA []*term.T `json:"gradA"`
}

type trainBeh struct {
	P    [][]string            `json:"p"`
	S    map[string]trainParam `json:"s"`
	Last string                `json:"last"`
	Live bool                  `json:"live"`
	Cfg  struct {
		Batch int       `json:"batch"`
		Feat  int       `json:"feat"`
		Act   string    `json:"act"`
		X     []*term.T `json:"x"`
		Y     []*term.T `json:"y"`
	} `json:"cfg"`
}

type forwarder interface {
	Forward(xs ...tensor.Tensor) (tensor.Tensor, error)
}

func litVals(ts []*term.T) []float64 {
	out := make([]float64, len(ts))
	for i, t := range ts {
		out[i] = t.Eval(nil, 1).V
	}
	return out
}

func near(a, b float64) bool {
	return math.Abs(a-b) <= 1e-9*(math.Abs(a)+math.Abs(b))+1e-12
}

// trainReplay executes the protocol path on a real FC layer / activation / MSE / SGD and compares the
// parameters after the last action. Returns (violation detail, matched only the recorded deviation).
func trainReplay(b *trainBeh) (d string, known bool) {
	d = run.Guard(func() string {
		var dd string
		dd, known = trainReplay0(b)
		return dd
	})
	return d, known
}

func trainReplay0(b *trainBeh) (string, bool) {
	fcConf := &layers.FCConfig{Inputs: b.Cfg.Feat, Outputs: 1}
	fc, err := layers.NewFC(fcConf)
	fcConf.Inputs, fcConf.Outputs = 77, 78 // the config struct is the caller's
	if err != nil {
		return "HARNESS: " + err.Error(), false
	}
	ws := fc.Weights()
	w0, _ := bind.New([]int{1}, []float64{1}, true)
	b0, _ := bind.New([]int{1}, []float64{0.5}, true)
	*ws[0].Value, *ws[1].Value = w0, b0
	var act forwarder
	if b.Cfg.Act == "relu" {
		act = activations.NewRelu()
	} else {
		lrConf := &activations.LeakyReluConfig{M: 0.5}
		act = activations.NewLeakyRelu(lrConf)
		lrConf.M = 77
	}
	x, _ := bind.New([]int{b.Cfg.Batch, b.Cfg.Feat}, litVals(b.Cfg.X), false)
	y, _ := bind.New([]int{b.Cfg.Batch}, litVals(b.Cfg.Y), false)
	sgdConf := &optimizers.SGDConfig{LearningRate: 0.5}
	sgd := optimizers.NewSGD(sgdConf)
	sgdConf.LearningRate = 77 // the config struct is the caller's
	idx := map[string]int{"w": 0, "b": 1}
	var loss tensor.Tensor
	last := "ok"
	for i, a := range b.P {
		last = "ok"
		switch a[0] {
		case "forward":
			o, err := fc.Forward(x)
			if err != nil {
				return fmt.Sprintf("action %d forward: %v", i, err), false
			}
			if o, err = act.Forward(o); err != nil {
				return fmt.Sprintf("action %d activation: %v", i, err), false
			}
			if o, err = o.Squeeze(1); err != nil {
				return fmt.Sprintf("action %d squeeze: %v", i, err), false
			}
			if loss, err = losses.NewMSE().Compute(o, y); err != nil {
				return fmt.Sprintf("action %d loss: %v", i, err), false
			}
		case "backprop":
			if err := tensor.BackPropagate(loss); err != nil {
				return fmt.Sprintf("action %d BackPropagate: %v", i, err), false
			}
		case "update":
			ptr := ws[idx[a[1]]].Value
			before := *ptr
			if err := sgd.Update(ptr); err != nil {
				last = "error"
				if *ptr != before {
					return fmt.Sprintf("action %d: a rejected Update replaced the tensor", i), false
				}
			}
		case "reset":
			(*ws[idx[a[1]]].Value).ResetGradContext(true)
		case "endstep":
		}
	}
	if last != b.Last {
		return fmt.Sprintf("the last call (%v) returned %s, specification %s", b.P[len(b.P)-1], last, b.Last), false
	}
	known := false
	for name, want := range b.S {
		t := *ws[idx[name]].Value
		dims, flat, err := bind.Read(t)
		if err != nil || len(dims) != 1 || dims[0] != 1 {
			return fmt.Sprintf("parameter %s has shape %v", name, dims), false
		}
		wv := litVals(want.Val)
		if !near(flat[0], wv[0]) {
			wa := litVals(want.ValA)
			if near(flat[0], wa[0]) {
				known = true
			} else {
				return fmt.Sprintf("parameter %s is %v, specification %v (as-is %v)", name, flat[0], wv[0], wa[0]), false
			}
		}
		ctx := bind.Context(t)
		exp := map[string][3]bool{"fresh": {true, false, false}, "graded": {true, true, true}, "stale": {false, true, false}}[want.Ctx]
		if [3]bool{ctx.Tracked, ctx.Spent, ctx.HasGrad} != exp {
			return fmt.Sprintf("parameter %s context (tracked,spent,hasGrad) = (%v,%v,%v), specification %s", name, ctx.Tracked, ctx.Spent, ctx.HasGrad, want.Ctx), false
		}
		if want.Ctx == "graded" {
			_, g, err := bind.Read(t.Gradient())
			if err != nil {
				return err.Error(), false
			}
			gw := litVals(want.Grad)
			if !near(g[0], gw[0]) {
				ga := litVals(want.GradA)
				if near(g[0], ga[0]) {
					known = true
				} else {
					return fmt.Sprintf("gradient of parameter %s is %v, specification %v (as-is %v)", name, g[0], gw[0], ga[0]), false
				}
			}
		}
	}
	return "", known
}

/* ---------------------- symbolic multi-step trajectories ------------------ */

// trajectory runs K real training steps of the model of case cs (one or several FC layers with activations and a
// loss) and checks every step against the symbolic one-step map. Returns (violation, known finding witnessed, steps).
func trajectory(cs *sym.Case, rng *rand.Rand, K int, lr float64, profile int) (d string, known bool, steps int) {
	d = run.Guard(func() string {
		var dd string
		dd, known, steps = trajectory0(cs, rng, K, lr, profile)
		return dd
	})
	return d, known, steps
}

func trajectory0(cs *sym.Case, rng *rand.Rand, K int, lr float64, profile int) (string, bool, int) {
	env := sym.Assign(cs, rng, profile) // the profile selects among the value domains a model lists for its inputs
	// one persistent layer object per fc instruction; its parameters live behind the Weights() pointers
	type param struct {
		node int // input node id (1-based)
		ptr  *tensor.Tensor
	}
	var params []param
	layerOf := map[int]*layers.FC{}
	inputs := make([]tensor.Tensor, len(cs.Inputs))
	for i, in := range cs.Inputs {
		t, err := bind.New(in.Dims, env[in.Name], in.Tracked)
		if err != nil {
			return "HARNESS: " + err.Error(), false, 0
		}
		inputs[i] = t
	}
	for ci, ins := range cs.Code {
		if ins.Op != "fc" {
			continue
		}
		wn, bn := ins.Args[0], ins.Args[1]
		fcConf := &layers.FCConfig{Inputs: 1, Outputs: cs.Inputs[wn-1].Dims[0]}
		fc, err := layers.NewFC(fcConf)
		fcConf.Inputs, fcConf.Outputs = 77, 78
		if err != nil {
			return "HARNESS: " + err.Error(), false, 0
		}
		ws := fc.Weights()
		*ws[0].Value, *ws[1].Value = inputs[wn-1], inputs[bn-1]
		params = append(params, param{wn, ws[0].Value}, param{bn, ws[1].Value})
		layerOf[ci] = fc
	}
	sgdConf := &optimizers.SGDConfig{LearningRate: lr}
	sgd := optimizers.NewSGD(sgdConf)
	sgdConf.LearningRate = 77 // the config struct is the caller's
	grads, asis := map[int][]*term.T{}, map[int][]*term.T{}
	for _, g := range cs.Grads {
		grads[g.Node] = g.Data
	}
	for _, g := range cs.Asis {
		asis[g.Node] = g.Data
	}
	known := false
	reg := bind.NewRegistry() // the activation and loss OBJECTS persist across the steps, as in a real training loop
	for k := 0; k < K; k++ {
		nodes := append([]tensor.Tensor{}, inputs...)
		for _, p := range params {
			nodes[p.node-1] = *p.ptr
		}
		for ci, ins := range cs.Code {
			var o tensor.Tensor
			var err error
			if ins.Op == "fc" {
				o, err = layerOf[ci].Forward(nodes[ins.Args[2]-1])
			} else {
				args := make([]tensor.Tensor, len(ins.Args))
				for i, a := range ins.Args {
					args[i] = nodes[a-1]
				}
				par := ins.Par
				par.Inst = 100 + ci
				o, _, err = bind.ApplyIn(reg, ins.Op, par, args)
			}
			if err != nil {
				return fmt.Sprintf("step %d: %s failed: %v", k, ins.Op, err), false, k
			}
			nodes = append(nodes, o)
		}
		if err := tensor.BackPropagate(nodes[len(nodes)-1]); err != nil {
			return fmt.Sprintf("step %d: BackPropagate failed: %v", k, err), false, k
		}
		// expectation at the real current weights
		want, wantA := map[int][]term.Interval{}, map[int][]term.Interval{}
		skip := false
		for _, p := range params {
			for _, tm := range grads[p.node] {
				iv := tm.Allowed(env)
				if iv.Unstable || !iv.Finite() || (!cs.Ties && iv.Lo != iv.Hi) {
					skip = true
				}
				want[p.node] = append(want[p.node], iv)
			}
			for _, tm := range asis[p.node] {
				wantA[p.node] = append(wantA[p.node], tm.Allowed(env))
			}
		}
		for _, p := range params {
			if err := sgd.Update(p.ptr); err != nil {
				return fmt.Sprintf("step %d: Update of parameter %s failed: %v", k, cs.Inputs[p.node-1].Name, err), false, k
			}
			(*p.ptr).ResetGradContext(true)
		}
		for _, p := range params {
			name := cs.Inputs[p.node-1].Name
			dims, flat, err := bind.Read(*p.ptr)
			if err != nil {
				return err.Error(), false, k
			}
			if fmt.Sprint(dims) != fmt.Sprint(cs.Inputs[p.node-1].Dims) {
				return fmt.Sprintf("step %d: parameter %s changed shape to %v", k, name, dims), false, k
			}
			if ctx := bind.Context(*p.ptr); !ctx.Tracked || ctx.Spent || ctx.HasGrad {
				return fmt.Sprintf("step %d: parameter %s is not a fresh tracked leaf after Update + Reset", k, name), false, k
			}
			if !skip {
				for i := range flat {
					old := env[name][i]
					step := func(iv term.Interval) (lo, hi, tol float64) {
						a, b := old-lr*iv.Lo, old-lr*iv.Hi
						return math.Min(a, b), math.Max(a, b), math.Abs(lr)*iv.Tol() + 4e-16*(math.Abs(old)+math.Abs(lr*iv.Lo)) + 1e-300
					}
					lo, hi, tol := step(want[p.node][i])
					if !(flat[i] >= lo-tol && flat[i] <= hi+tol) {
						if len(wantA[p.node]) > i {
							lo2, hi2, tol2 := step(wantA[p.node][i])
							if flat[i] >= lo2-tol2 && flat[i] <= hi2+tol2 {
								known = true
								continue
							}
						}
						return fmt.Sprintf("step %d: %s[%d] moved from %v to %v; gradient descent at the current weights gives [%v, %v]", k, name, i, old, flat[i], lo, hi), false, k
					}
				}
			}
		}
		for _, p := range params {
			_, flat, _ := bind.Read(*p.ptr)
			env[cs.Inputs[p.node-1].Name] = flat
		}
	}
	return "", known, K
}

/* ------------------------ recorded protocols (code -> spec) ----------------------- */

type protoEvent struct {
	Ev    string             `json:"ev"`
	P     string             `json:"p,omitempty"`
	Ok    bool               `json:"ok"`
	Live  bool               `json:"live"`
	Flags map[string][3]bool `json:"flags,omitempty"`
}

// recordProtocol runs a random training protocol of `steps` steps on a real model of `depth` FC layers and logs one
// event per call. Updates and resets are omitted, reordered and repeated across steps at random.
func recordProtocol(seed int64, depth, steps int) (evs []protoEvent, err error) {
	defer func() {
		if r := recover(); r != nil {
			err = fmt.Errorf("panic: %v", r)
		}
	}()
	rng := rand.New(rand.NewSource(seed))
	widths := []int{1 + rng.Intn(3)}
	for i := 0; i < depth; i++ {
		widths = append(widths, 1+rng.Intn(3))
	}
	widths[depth] = 1 // MSE needs a rank-1 prediction
	batch := 1 + rng.Intn(4)
	var fcs []*layers.FC
	var acts []forwarder
	var ptrs []*tensor.Tensor
	var names []string
	for i := 0; i < depth; i++ {
		conf := &layers.FCConfig{Inputs: widths[i], Outputs: widths[i+1]}
		fc, e := layers.NewFC(conf)
		if e != nil {
			return nil, e
		}
		conf.Inputs, conf.Outputs = 77, 78
		fcs = append(fcs, fc)
		ws := fc.Weights()
		ptrs = append(ptrs, ws[0].Value, ws[1].Value)
		names = append(names, fmt.Sprintf("w%d", i+1), fmt.Sprintf("b%d", i+1))
		switch rng.Intn(4) {
		case 0:
			acts = append(acts, activations.NewRelu())
		case 1:
			acts = append(acts, activations.NewLeakyRelu(nil))
		case 2:
			acts = append(acts, activations.NewSigmoid())
		default:
			acts = append(acts, activations.NewTanh())
		}
	}
	xv := make([]float64, batch*widths[0])
	for i := range xv {
		xv[i] = 2*rng.Float64() - 1
	}
	yv := make([]float64, batch)
	for i := range yv {
		yv[i] = rng.Float64()
	}
	x, _ := bind.New([]int{batch, widths[0]}, xv, false)
	y, _ := bind.New([]int{batch}, yv, false)
	sgd := optimizers.NewSGD(&optimizers.SGDConfig{LearningRate: 0.05})
	flags := func() map[string][3]bool {
		m := map[string][3]bool{}
		for i, p := range ptrs {
			c := bind.Context(*p)
			m[names[i]] = [3]bool{c.Tracked, c.Spent, c.HasGrad}
		}
		return m
	}
	for s := 0; s < steps; s++ {
		o := x
		for i := range fcs {
			var e error
			if o, e = fcs[i].Forward(o); e != nil {
				return nil, e
			}
			if o, e = acts[i].Forward(o); e != nil {
				return nil, e
			}
		}
		o, e := o.Squeeze(1)
		if e != nil {
			return nil, e
		}
		loss, e := losses.NewMSE().Compute(o, y)
		if e != nil {
			return nil, e
		}
		evs = append(evs, protoEvent{Ev: "forward", Ok: true, Live: bind.Context(loss).Tracked, Flags: flags()})
		if e := tensor.BackPropagate(loss); e != nil {
			return nil, fmt.Errorf("BackPropagate: %v", e)
		}
		evs = append(evs, protoEvent{Ev: "backprop", Ok: true, Flags: flags()})
		// a random schedule of updates (each parameter at most once per step) and resets
		type act struct {
			kind string
			i    int
		}
		var sched []act
		for i := range ptrs {
			if rng.Intn(5) != 0 {
				sched = append(sched, act{"update", i})
			}
			for k := rng.Intn(3); k > 0; k-- {
				if rng.Intn(4) != 0 {
					sched = append(sched, act{"reset", i})
				}
			}
		}
		rng.Shuffle(len(sched), func(a, b int) { sched[a], sched[b] = sched[b], sched[a] })
		for _, a := range sched {
			if a.kind == "update" {
				before := *ptrs[a.i]
				e := sgd.Update(ptrs[a.i])
				if e != nil && *ptrs[a.i] != before {
					return nil, fmt.Errorf("a rejected Update replaced the tensor")
				}
				evs = append(evs, protoEvent{Ev: "update", P: names[a.i], Ok: e == nil, Flags: flags()})
			} else {
				(*ptrs[a.i]).ResetGradContext(true)
				evs = append(evs, protoEvent{Ev: "reset", P: names[a.i], Ok: true, Flags: flags()})
			}
		}
		evs = append(evs, protoEvent{Ev: "endstep", Ok: true, Flags: flags()})
	}
	evs = append(evs, protoEvent{Ev: "end", Ok: true})
	return evs, nil
}

// validateProtocols records n random protocols per model depth and has TLC validate them against TrainProto.
func validateProtocols(c *run.Ctx, n, steps int) error {
	for depth := 1; depth <= 3; depth++ {
		file := filepath.Join(c.Work, fmt.Sprintf("proto-%d.ndjson", depth))
		record := func() (int, []int64, error) {
			f, err := os.Create(file)
			if err != nil {
				return 0, nil, run.Brokenf("%v", err)
			}
			defer f.Close()
			w := bufio.NewWriter(f)
			defer w.Flush()
			total := 0
			var starts []int64
			for k := 0; k < n; k++ {
				seed := c.Seed*1000003 + int64(depth)*7919 + int64(k)
				evs, err := recordProtocol(seed, depth, steps)
				if err != nil {
					c.Violate(fmt.Sprintf("training protocol (seed %d, %d layers): a call of the protocol failed: %v", seed, depth, err), map[string]any{"proto_seed": seed, "depth": depth, "steps": steps})
					return 0, nil, nil
				}
				starts = append(starts, int64(total))
				if os.Getenv("QV_DRILL") == "proto" && k == 1 {
					// binding drill: one logged outcome is falsified; TLC must reject the trace
					for i := range evs {
						if evs[i].Ev == "update" {
							evs[i].Ok = !evs[i].Ok
							break
						}
					}
				}
				for _, e := range evs {
					b, _ := json.Marshal(e)
					w.Write(append(b, '\n'))
					total++
				}
			}
			return total, starts, nil
		}
		total, _, err := record()
		if err != nil {
			return err
		}
		if total == 0 {
			continue
		}
		ps := []string{}
		for i := 1; i <= depth; i++ {
			ps = append(ps, fmt.Sprintf("\"w%d\", \"b%d\"", i, i))
		}
		cfg := fmt.Sprintf("SPECIFICATION Spec\nCONSTANTS\n  Params = {%s}\nINVARIANT DeadWhileStale\nCONSTRAINT HighWater\nPOSTCONDITION TraceAccepted\nCHECK_DEADLOCK FALSE\n", strings.Join(ps, ", "))
		name := fmt.Sprintf("trace_train_%d.cfg", depth)
		os.WriteFile(filepath.Join(c.Work, name), []byte(cfg), 0o644)
		res, err := c.TLC(run.TLCOpts{Module: "Trace_Train", Config: name, Workers: 1, Timeout: 10 * time.Minute, Env: []string{"QV_TRACE=" + file}, Tag: name})
		if err != nil {
			return err
		}
		if i := strings.Index(res.Out, "\"TRACE-REJECTED-AT\", "); i >= 0 {
			var at int
			fmt.Sscanf(res.Out[i+len("\"TRACE-REJECTED-AT\", "):], "%d", &at)
			b, _ := os.ReadFile(file)
			lines := strings.Split(string(b), "\n")
			ev := ""
			if at >= 1 && at-1 < len(lines) {
				ev = lines[at-1]
			}
			// deterministic recording: record again and validate again before it counts
			record()
			res2, err := c.TLC(run.TLCOpts{Module: "Trace_Train", Config: name, Workers: 1, Timeout: 10 * time.Minute, Env: []string{"QV_TRACE=" + file}, Tag: name + "-again"})
			if err != nil {
				return err
			}
			if strings.Contains(res2.Out, "TRACE-REJECTED-AT") {
				c.Violate(fmt.Sprintf("a recorded training protocol (%d layers) is not a behaviour of TrainProto: event %d %s", depth, at, ev), map[string]any{"proto_depth": depth, "event_index": at, "event": ev, "seed": c.Seed})
			}
			continue
		}
		if res.ExitCode != 0 || strings.Contains(res.Out, "Error:") {
			return run.Brokenf("TLC trace validation of training protocols failed:\n%s", run.Tail(res.Out, 25))
		}
		c.Traces += n
		c.AddExtra(fmt.Sprintf("recorded_protocols_%d_layers", depth), fmt.Sprintf("%d random protocols of %d steps (%d events) on real %d-layer models validated by TLC against TrainProto (which Train refines)", n, steps, total, depth))
	}
	return nil
}

func init() {
	replayers["C11"] = func(path string, w json.RawMessage) int {
		var rec struct {
			Case    *sym.Case `json:"trajectory"`
			Seed    int64     `json:"seed"`
			LR      float64   `json:"lr"`
			K       int       `json:"K"`
			Profile int       `json:"profile"`
		}
		if err := json.Unmarshal(w, &rec); err != nil || rec.Case == nil || rec.K == 0 {
			fmt.Fprintln(os.Stderr, "no replayer for this witness kind")
			return 2
		}
		d, _, _ := trajectory(rec.Case, rand.New(rand.NewSource(rec.Seed)), rec.K, rec.LR, rec.Profile)
		if strings.HasPrefix(d, "HARNESS") {
			fmt.Fprintln(os.Stderr, d)
			return 2
		}
		if d != "" {
			fmt.Printf("VIOLATION property=C11 replay=%s\n  training %s (lr %v): %s\n", path, rec.Case.Name, rec.LR, d)
			return 1
		}
		fmt.Printf("C11: witness %s no longer fails\n", path)
		return 0
	}
	register("C11", "model_checking", func(c *run.Ctx) error {
		c.Rule = "(0) Train refines the value-free protocol machine TrainProto (TLC property RefinesProto), and random protocols of 25 (40) steps recorded from real 1-3 layer models with any activation are validated by TLC against TrainProto (Trace_Train.tla); (1) TLC explores spec/Train.tla exhaustively: forward / back-propagate / Update(p) / Reset(p) / end-of-step with every way of omitting updates and resets, for batch, features in 1..2, Relu and LeakyRelu + MSE, 3 (4) steps, exact rational weights, with Descent, GradIsCurrent, StaleIsAnError, NoLeak, ShapesKept checked; every transition is replayed on a real FC layer / activation / MSE / SGD comparing weights, context states, gradients and ok/error of the last call; (2) TLC emits the symbolic one-step map (dLoss/dW, dLoss/dB as terms) of every model FC -> {Relu, LeakyRelu, Sigmoid, Tanh, Softmax} -> {MSE, BCE, CE} that type-checks for the size grid; the harness runs K real steps from seeded initialisations and checks w_{k+1} = w_k - lr*g(w_k) after every step with several learning rates (incl. 0 and negative); distinct = distinct protocol paths + distinct (model, sizes, learning rate, initialisation)"
		c.Assumptions = []string{"known finding D2: with batch > 1 the parameter gradients pass an expansion; the as-is trajectory (valA / asis terms) is produced by the specification and matched exactly", "rational trajectories only for the piece-wise rational family; the other models are covered by the symbolic one-step maps"}
		steps := 3
		if c.Thorough {
			steps = 4
		}
		nb := 0
		for _, act := range []string{"relu", "leakyrelu"} {
			for batch := 1; batch <= 2; batch++ {
				for feat := 1; feat <= 2; feat++ {
					cfg := fmt.Sprintf("SPECIFICATION Spec\nCONSTANTS\n  Batch = %d\n  Feat = %d\n  Act = \"%s\"\n  MaxSteps = %d\nVIEW View\nCONSTRAINT NoKink\nINVARIANTS NoLeak ShapesKept\nPROPERTIES Descent StaleIsAnError GradIsCurrent RefinesProto\nACTION_CONSTRAINT Dump\nCHECK_DEADLOCK FALSE\n", batch, feat, act, steps)
					name := fmt.Sprintf("train_%s_%d_%d.cfg", act, batch, feat)
					os.WriteFile(filepath.Join(c.Work, name), []byte(cfg), 0o644)
					res, err := c.MustTLC(run.TLCOpts{Module: "Train", Config: name, Workers: 1, Timeout: 20 * time.Minute, Tag: name})
					if err != nil {
						return err
					}
					c.States += res.Distinct
					c.Transitions += res.Generated
					sc := bufio.NewScanner(strings.NewReader(res.Out))
					sc.Buffer(make([]byte, 1<<20), 1<<26)
					for sc.Scan() {
						line := sc.Text()
						if !strings.HasPrefix(line, "\"{") {
							continue
						}
						s, err := strconv.Unquote(line)
						if err != nil {
							return run.Brokenf("dump: %v", err)
						}
						var b trainBeh
						if err := json.Unmarshal([]byte(s), &b); err != nil {
							return run.Brokenf("dump: %v: %.200s", err, s)
						}
						d, known := trainReplay(&b)
						if strings.HasPrefix(d, "HARNESS") {
							return run.Brokenf("%s", d)
						}
						if d != "" {
							if d2, _ := trainReplay(&b); d2 != "" {
								c.Violate(fmt.Sprintf("training protocol path of %d calls (%s, batch %d, features %d): %s", len(b.P), act, batch, feat, d), map[string]any{"train": b, "detail": d})
							}
						} else if known {
							if kf := c.Known("broadcast_grad_mean"); kf != nil {
								c.SawKnown(kf)
							} else {
								c.Violate("training trajectory equals the as-is prediction of an unlisted deviation", map[string]any{"train": b})
							}
						}
						nb++
						c.Count(name+fmt.Sprint(b.P), len(b.P) >= 3)
						if nb%301 == 1 {
							c.Sample(map[string]any{"protocol_path": b.P, "model": name})
						}
					}
				}
			}
		}
		if nb == 0 {
			return run.Brokenf("no protocol behaviours dumped")
		}
		c.Traces += nb
		c.AddExtra("protocol_behaviours_replayed", nb)

		files, err := c.Generate("Gen_C11", 4, 30*time.Minute)
		if err != nil {
			return err
		}
		K, inits := 12, 4
		if c.Thorough {
			K, inits = 40, 20
		}
		ntraj, nsteps := 0, 0
		idx := 0
		err = run.ReadLines(files, func(line []byte) error {
			var cs sym.Case
			if err := json.Unmarshal(line, &cs); err != nil {
				return run.Brokenf("case: %v", err)
			}
			idx++
			for _, lr := range []float64{0.01, 0.5, 0, -0.25} {
				for i := 0; i < inits; i++ {
					seed := c.Seed*7919 + int64(idx)*131 + int64(i)
					d, known, n := trajectory(&cs, rand.New(rand.NewSource(seed)), K, lr, i)
					if strings.HasPrefix(d, "HARNESS") {
						return run.Brokenf("%s", d)
					}
					if d != "" {
						if d2, _, _ := trajectory(&cs, rand.New(rand.NewSource(seed)), K, lr, i); d2 != "" {
							c.Violate(fmt.Sprintf("training %s (lr %v): %s", cs.Name, lr, d), map[string]any{"trajectory": cs, "seed": seed, "lr": lr, "K": K, "profile": i, "detail": d})
							return nil
						}
					}
					if known {
						if kf := c.Known("broadcast_grad_mean"); kf != nil {
							c.SawKnown(kf)
						}
					}
					ntraj++
					nsteps += n
					c.Count(fmt.Sprintf("%s|%v|%v|%d", cs.Key(), lr, i, K), true)
				}
			}
			if idx%9 == 1 {
				c.Sample(map[string]any{"model": cs.Name, "inputs": cs.Inputs, "steps": K})
			}
			return nil
		})
		if err != nil {
			return err
		}
		c.AddExtra("symbolic_trajectories", ntraj)
		c.AddExtra("training_steps_checked", nsteps)
		// unbounded: TLAPS proves DeadWhileStale inductive for TrainProto (any parameter set, any number of steps)
		if b, err := os.ReadFile(filepath.Join(run.VerifDir, "spec", "proofs", "TrainProtoProofs.tla")); err == nil {
			os.WriteFile(filepath.Join(c.Work, "TrainProtoProofs.tla"), b, 0o644)
			cmd := exec.Command("timeout", "300", "tlapm", "--threads", "8", "TrainProtoProofs.tla")
			cmd.Dir = c.Work
			out, _ := cmd.CombinedOutput()
			if !strings.Contains(string(out), "obligations proved") || strings.Contains(string(out), "failed") {
				// an auxiliary, unbounded argument: a prover time-out does not decide anything about the code
				c.AddExtra("tlaps", "TrainProtoProofs.tla was NOT discharged in this run: "+run.Tail(string(out), 3))
			} else {
				c.AddExtra("tlaps", "TrainProtoProofs.tla: TypeOK /\\ DeadWhileStale is an inductive invariant of TrainProto (all obligations proved) - a live forward pass never coexists with a spent parameter, for any parameter set and any number of steps")
			}
		}
		// code -> spec: long random protocols on real models of 1..3 layers, validated by TLC
		np, ns := 40, 25
		if c.Thorough {
			np, ns = 600, 40
		}
		return validateProtocols(c, np, ns)
	})
}
