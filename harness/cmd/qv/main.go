// qv is the driver of the qeep verification: for one property it runs TLC on
// the specification (model checking, generation, trace validation), binds the
// result to the real code, writes /verif/evidence/<ID>.json and exits
// 0 (held), 1 (violation, with a replay file) or 2 (the machinery failed).
package main

import (
	"encoding/json"
	"errors"
	"flag"
	"fmt"
	"os"
	"path/filepath"
	"sort"

	"qeepverif/internal/beh"
	"qeepverif/internal/bind"
	"qeepverif/internal/run"
)

type checkFn func(c *run.Ctx) error

type check struct {
	level string
	fn    checkFn
}

var checks = map[string]check{}

func register(id, level string, fn checkFn) { checks[id] = check{level, fn} }

func main() {
	if len(os.Args) >= 3 && os.Args[1] == "worker" {
		switch os.Args[2] {
		case "sym":
			os.Exit(run.SymWorker(os.Args[3:]))
		case "beh":
			os.Exit(run.BehWorker(os.Args[3:]))
		case "c09":
			os.Exit(c09Worker(os.Args[3:]))
		}
		os.Exit(2)
	}
	if len(os.Args) >= 3 && os.Args[1] == "symbp" {
		os.Exit(run.SymBPSubprocess(os.Args[2:]))
	}
	if len(os.Args) >= 3 && os.Args[1] == "manybp" {
		os.Exit(manyBP(os.Args[2]))
	}
	if len(os.Args) >= 3 && os.Args[1] == "ladder" {
		os.Exit(ladder(os.Args[2]))
	}
	if len(os.Args) < 3 || os.Args[1] != "check" {
		fmt.Fprintln(os.Stderr, "usage: qv check <ID> [--tier quick|thorough] [--replay file]")
		os.Exit(2)
	}
	id := os.Args[2]
	fs := flag.NewFlagSet("check", flag.ExitOnError)
	tier := fs.String("tier", envOr("VERIF_TIER", "quick"), "quick or thorough")
	replay := fs.String("replay", "", "re-execute a violation witness")
	fs.Parse(os.Args[3:])
	if *tier != "quick" && *tier != "thorough" {
		fmt.Fprintln(os.Stderr, "tier must be quick or thorough")
		os.Exit(2)
	}
	ck, ok := checks[id]
	if !ok {
		ids := []string{}
		for k := range checks {
			ids = append(ids, k)
		}
		sort.Strings(ids)
		fmt.Fprintf(os.Stderr, "unknown property %q (have %v)\n", id, ids)
		os.Exit(2)
	}
	bind.Scope = id
	if *replay != "" {
		os.Exit(doReplay(id, *replay))
	}
	c, err := run.NewCtx(id, *tier, ck.level)
	if err != nil {
		fmt.Fprintln(os.Stderr, err)
		os.Exit(2)
	}
	code := func() int {
		defer c.Close()
		if err := c.PrepareSpec(); err != nil {
			fmt.Fprintln(os.Stderr, err)
			return 2
		}
		regressions(c, id)
		if err := ck.fn(c); err != nil {
			var b run.Broken
			if errors.As(err, &b) {
				fmt.Fprintf(os.Stderr, "BROKEN %s: %s\n", id, b.Msg)
			} else {
				fmt.Fprintf(os.Stderr, "BROKEN %s: %v\n", id, err)
			}
			return 2
		}
		return c.Finish()
	}()
	os.Exit(code)
}

func envOr(k, d string) string {
	if v := os.Getenv(k); v != "" {
		return v
	}
	return d
}

// regressions replays the committed witnesses of repaired defects and of false alarms of this property
// (regress/<ID>-*.json): each must pass on a conforming tree; one that fails again is reported like any violation.
func regressions(c *run.Ctx, id string) {
	files, _ := filepath.Glob(filepath.Join(run.VerifDir, "regress", id+"-*.json"))
	n := 0
	for _, f := range files {
		b, err := os.ReadFile(f)
		if err != nil {
			continue
		}
		var rec struct {
			Witness json.RawMessage `json:"witness"`
		}
		if json.Unmarshal(b, &rec) != nil {
			continue
		}
		var w run.SymWitness
		if err := json.Unmarshal(rec.Witness, &w); err == nil && w.Case != nil {
			n++
			if res := run.ReplaySymWitness(&w); res.Verdict == 3 {
				c.Violate(fmt.Sprintf("regression witness %s fails again: %s", filepath.Base(f), res.Detail), w)
			}
		}
	}
	if n > 0 {
		c.AddExtra("regression_witnesses_replayed", n)
	}
}

// doReplay re-executes the witness of a violation against the current tree.
func doReplay(id, path string) int {
	b, err := os.ReadFile(path)
	if err != nil {
		fmt.Fprintln(os.Stderr, err)
		return 2
	}
	var rec struct {
		Property string          `json:"property"`
		What     string          `json:"what"`
		Witness  json.RawMessage `json:"witness"`
	}
	if err := json.Unmarshal(b, &rec); err != nil {
		fmt.Fprintln(os.Stderr, err)
		return 2
	}
	var w run.SymWitness
	if err := json.Unmarshal(rec.Witness, &w); err == nil && w.Case != nil {
		res := run.ReplaySymWitness(&w)
		if res.Verdict == 3 {
			fmt.Printf("VIOLATION property=%s replay=%s\n  %s\n", id, path, res.Detail)
			return 1
		}
		fmt.Printf("%s: witness %s no longer fails (verdict %d)\n", id, path, res.Verdict)
		return 0
	}
	var bw run.BehWitness
	if err := json.Unmarshal(rec.Witness, &bw); err == nil && bw.Behaviour != nil {
		if d, _ := beh.Replay(bw.Behaviour); d != "" {
			fmt.Printf("VIOLATION property=%s replay=%s\n  %s\n", id, path, d)
			return 1
		}
		fmt.Printf("%s: witness %s no longer fails\n", id, path)
		return 0
	}
	var tw run.TraceWitness
	if err := json.Unmarshal(rec.Witness, &tw); err == nil && tw.TraceSeed != 0 {
		c, err := run.NewCtx(id, "quick", "model_checking")
		if err != nil {
			fmt.Fprintln(os.Stderr, err)
			return 2
		}
		defer c.Close()
		if err := c.PrepareSpec(); err != nil {
			fmt.Fprintln(os.Stderr, err)
			return 2
		}
		bad, what, err := c.ReplayTraceWitness(&tw)
		if err != nil {
			fmt.Fprintln(os.Stderr, err)
			return 2
		}
		if bad {
			fmt.Printf("VIOLATION property=%s replay=%s\n  %s\n", id, path, what)
			return 1
		}
		fmt.Printf("%s: witness %s no longer fails (%s)\n", id, path, what)
		return 0
	}
	var lw struct {
		Depth int `json:"ladder_depth"`
		Kind  int `json:"ladder_kind"`
	}
	if err := json.Unmarshal(rec.Witness, &lw); err == nil && lw.Depth > 0 {
		return replayLadder(id, path, lw.Depth, lw.Kind)
	}
	if fn, ok := replayers[id]; ok {
		return fn(path, rec.Witness)
	}
	fmt.Fprintf(os.Stderr, "no replayer for this witness kind\n")
	return 2
}

var replayers = map[string]func(path string, w json.RawMessage) int{}
