package main

import (
	"fmt"
	"os"
	"path/filepath"
	"strings"
	"time"

	"qeepverif/internal/drive"
	"qeepverif/internal/run"
)

// autogradCfg writes a configuration of the Autograd machine.
func autogradCfg(c *run.Ctx, name string, maxNodes, maxBP int, reset bool, scribble bool, check bool, dump bool, extra string) string {
	dev := "{}"
	r := "FALSE"
	if reset {
		r = "TRUE"
	}
	sc := "FALSE"
	if scribble {
		sc = "TRUE"
	}
	s := fmt.Sprintf(`SPECIFICATION Spec
CONSTANTS
  MaxNodes = %d
  MaxBP = %d
  AllowReset = %s
  AllowScribble = %s
  Dev = %s
  Recorded = {"broadcast_grad_mean"}
  LeafVals <- MC_LeafVals
  UnOps <- MC_UnOps
  BinOps <- MC_BinOps
  CtorShapes <- MC_CtorShapes
VIEW View
CONSTRAINT Bounded
CHECK_DEADLOCK FALSE
`, maxNodes, maxBP, r, sc, dev)
	if check {
		s += "INVARIANTS C01_Total C08_Frame C08_Retire C08_Shape\nPROPERTIES C10_ValuesFrozen C10_GradOnlyInBP C10_TrackedOnlyByReset C10_ScribbleIsInert C01_Once\n"
	}
	if dump {
		s += "ACTION_CONSTRAINT Dump\n"
	}
	s += extra
	os.WriteFile(filepath.Join(c.Work, name), []byte(s), 0o644)
	return name
}

type mcRun struct {
	module     string
	nodes, bps int
	reset      bool
	scribble   bool
}

// modelCheck runs TLC exhaustively with all invariants and action properties.
func modelCheck(c *run.Ctx, m mcRun, timeout time.Duration) error {
	cfg := autogradCfg(c, fmt.Sprintf("mc_%s_%d_%d.cfg", m.module, m.nodes, m.bps), m.nodes, m.bps, m.reset, m.scribble, true, false, "")
	c.Logf("TLC model checking %s: MaxNodes=%d MaxBP=%d reset=%v", m.module, m.nodes, m.bps, m.reset)
	res, err := c.MustTLC(run.TLCOpts{Module: m.module, Config: cfg, Workers: 16, HeapMB: 24000, Timeout: timeout, Tag: "mc-" + m.module})
	if err != nil {
		return err
	}
	if res.Distinct == 0 {
		return run.Brokenf("TLC reported no states for %s", m.module)
	}
	c.States += res.Distinct
	c.Transitions += res.Generated
	c.AddExtra("mc_"+m.module, fmt.Sprintf("MaxNodes=%d MaxBP=%d reset=%v: %d distinct states, %d generated, depth %d, all invariants and action properties hold (%.0fs)", m.nodes, m.bps, m.reset, res.Distinct, res.Generated, res.Depth, res.Wall.Seconds()))
	return nil
}

// dumpAndReplay makes TLC print every transition into an idle state and replays each on the real library.
func dumpAndReplay(c *run.Ctx, m mcRun, timeout time.Duration) error {
	cfg := autogradCfg(c, fmt.Sprintf("gen_%s_%d_%d.cfg", m.module, m.nodes, m.bps), m.nodes, m.bps, m.reset, m.scribble, false, true, "")
	c.Logf("TLC dumping transitions of %s: MaxNodes=%d MaxBP=%d reset=%v", m.module, m.nodes, m.bps, m.reset)
	dumpFile := filepath.Join(c.Work, fmt.Sprintf("dump-%s-%d-%d.txt", m.module, m.nodes, m.bps))
	res, err := c.MustTLC(run.TLCOpts{Module: m.module, Config: cfg, Workers: 1, HeapMB: 8000, Timeout: timeout, Tag: "gen-" + m.module, StdoutFile: dumpFile})
	if err != nil {
		return err
	}
	c.Logf("replaying the dumped behaviours on the real library")
	n, err := c.ReplayDumpFile(dumpFile)
	os.Remove(dumpFile)
	if err != nil {
		return err
	}
	if n == 0 {
		return run.Brokenf("TLC dumped no transitions for %s", m.module)
	}
	c.Traces += n
	c.AddInt("behaviours_replayed", n)
	c.AddExtra("dump_"+m.module, fmt.Sprintf("MaxNodes=%d MaxBP=%d reset=%v: %d distinct states, %d transitions into idle states dumped and replayed", m.nodes, m.bps, m.reset, res.Distinct, n))
	return nil
}

// simulateAndReplay lets TLC generate random deep behaviours of the machine (-simulate) and replays every
// prefix that ends in an idle state.
func simulateAndReplay(c *run.Ctx, m mcRun, num, depth int, timeout time.Duration) error {
	cfg := autogradCfg(c, fmt.Sprintf("sim_%s_%d_%d.cfg", m.module, m.nodes, m.bps), m.nodes, m.bps, m.reset, m.scribble, false, true, "")
	c.Logf("TLC simulating %d behaviours of depth %d of %s (MaxNodes=%d MaxBP=%d)", num, depth, m.module, m.nodes, m.bps)
	res, err := c.MustTLC(run.TLCOpts{Module: m.module, Config: cfg, Workers: 1, HeapMB: 8000, Timeout: timeout, Tag: "sim-" + m.module,
		Args: []string{"-simulate", fmt.Sprintf("num=%d", num), "-depth", fmt.Sprint(depth), "-seed", fmt.Sprint(c.Seed)}})
	if err != nil {
		return err
	}
	n, err := c.ReplayDump(res.Out)
	if err != nil {
		return err
	}
	if n == 0 {
		return run.Brokenf("TLC simulation of %s produced no behaviours", m.module)
	}
	c.Traces += n
	c.AddInt("simulated_prefixes_replayed", n)
	return nil
}

func init() {
	register("C01", "model_checking", func(c *run.Ctx) error {
		c.Rule = "TLC explores the Autograd machine exhaustively (every DAG over the alphabet up to MaxNodes tensors, every tracked assignment, root, valid edge order, leaf-sharing repeated back-propagations, resets) and checks C01_Total / C01_Once in every state; every transition into an idle state is dumped with a witness path and replayed on the real library with the complete projected state compared; 1600 (40000) pseudo-random 10-12 node DAG skeletons with fan-out, reconvergence and doubled operands plus hand-written structures are replayed with symbolic values against the definitional gradient of every tensor on the way; TLC -simulate behaviours of a 9-tensor machine; recorded histories validated by TLC; distinct = distinct witness paths / skeletons; non-trivial = at least two tensors"
		c.Assumptions = []string{"spec/Autograd.tla is the reading of the statement; LocalVJP and TotalDeriv come from symbolic differentiation of the operation definitions", "exhaustive only within the stated bounds (rank-0 tensors here; tensor-valued graphs in the tensor configuration and the trace-validation tier)"}
		mc := mcRun{"MC_AutogradScalar", 3, 2, true, false}
		dump := mcRun{"MC_AutogradScalar", 3, 1, true, false}
		if c.Thorough {
			mc = mcRun{"MC_AutogradScalar", 4, 2, true, false}
			dump = mcRun{"MC_AutogradScalar", 4, 1, false, false}
		}
		if err := modelCheck(c, mc, 30*time.Minute); err != nil {
			return err
		}
		if err := dumpAndReplay(c, dump, 30*time.Minute); err != nil {
			return err
		}
		// the record of finding D1: the machine with the old depth-first edge walk violates C01_Total (also: non-vacuity)
		rec := `SPECIFICATION Spec
CONSTANTS
  MaxNodes = 3
  MaxBP = 1
  AllowReset = FALSE
  AllowScribble = FALSE
  Dev = {"bp_edge_walk"}
  Recorded = {}
  LeafVals <- MC_LeafVals
  UnOps <- MC_UnOps
  BinOps <- MC_BinOps
  CtorShapes <- MC_CtorShapes
VIEW View
CONSTRAINT Bounded
INVARIANT C01_Total
CHECK_DEADLOCK FALSE
`
		if err := writeWork(c, "d1record.cfg", rec); err != nil {
			return err
		}
		res, err := c.TLC(run.TLCOpts{Module: "MC_AutogradScalar", Config: "d1record.cfg", Workers: 4, Timeout: 10 * time.Minute, Tag: "d1record"})
		if err != nil {
			return err
		}
		if !strings.Contains(res.Out, "Invariant C01_Total is violated") {
			return run.Brokenf("with the recorded deviation bp_edge_walk TLC did not report C01_Total violated:\n%s", run.Tail(res.Out, 20))
		}
		c.AddExtra("d1_record", "with Dev = {bp_edge_walk} (the depth-first edge walk of the pinned commit, repaired by f803b8a) TLC reports C01_Total violated")
		tmc := mcRun{"MC_AutogradTensor", 3, 1, false, false}
		if c.Thorough {
			tmc = mcRun{"MC_AutogradTensor", 4, 1, false, false}
		}
		if err := modelCheck(c, tmc, 30*time.Minute); err != nil {
			return err
		}
		if err := dumpAndReplay(c, tmc, 30*time.Minute); err != nil {
			return err
		}
		t2 := mcRun{"MC_AutogradTensor2", 3, 1, false, false}
		if err := modelCheck(c, t2, 30*time.Minute); err != nil {
			return err
		}
		if err := dumpAndReplay(c, t2, 30*time.Minute); err != nil {
			return err
		}
		// larger graphs, symbolic values: pseudo-random and hand-written DAG skeletons, gradients by the definition
		c.Logf("TLC generating DAG skeletons (Gen_C01) and their gradients by definition")
		parts := 8
		if c.Thorough {
			parts = 16
		}
		files, err := c.Generate("Gen_C01", parts, 60*time.Minute)
		if err != nil {
			return err
		}
		na := 3
		if c.Thorough {
			na = 6
		}
		if err := c.ReplaySym(files, na); err != nil {
			return err
		}
		// deeper graphs than the exhaustive bound: random behaviours of the same machine
		sims, depth := 40, 30
		if c.Thorough {
			sims, depth = 1500, 45
		}
		if err := simulateAndReplay(c, mcRun{"MC_AutogradTensor", 9, 2, false, false}, sims, depth, 30*time.Minute); err != nil {
			return err
		}
		// code -> spec: histories recorded from the real library, validated by TLC
		nt := 150
		if c.Thorough {
			nt = 3000
		}
		if err := c.ValidateTraces(nt, drive.Opts{Steps: 40, MaxNodes: 24, Resets: false, MaxBPs: 2, ValueCap: 30, Fanout: true}, "dag"); err != nil {
			return err
		}
		// the repository's own tests, run with the hooks on, as a source of traces
		if err := c.HarvestRepoTests(); err != nil {
			return err
		}
		// polynomial time: a deep graph with exponentially many paths
		ladderDepth := 120
		if c.Thorough {
			ladderDepth = 400
		}
		for kind := range ladderKinds {
			depth := ladderDepth
			if kind > 0 {
				// the other stage shapes: 2^40 (2^100) paths are as good as 3^120 for telling polynomial from exponential,
				// and the TLC validation of the recorded traversal grows faster than linearly with the trace
				depth = 40
				if c.Thorough {
					depth = 100
				}
			}
			if err := ladderCheck(c, depth, kind, false); err != nil {
				return err
			}
		}
		nbp := 70000
		if c.Thorough {
			nbp = 300000
		}
		return manyBPCheck(c, nbp)
	})
}

func init() {
	register("C08", "model_checking", func(c *run.Ctx) error {
		c.Rule = "TLC explores the Autograd machine over histories: creation (tracked or not), unary / binary / comparison operations over existing tensors, BackPropagate on any tensor (untracked roots, repeated over leaf-sharing graphs), ResetGradContext(true|false) on any tensor under the statement's provisos, operations on spent tensors; invariants C08_Frame / C08_Retire / C08_Shape and the tracking rule (built into Op) in every state; every transition into an idle state is replayed on the real library and tracked / spent flags (verif hook), gradient presence and values of ALL tensors compared; each behaviour is re-run with every leaf untracked and all forward values must be bit-identical; distinct = distinct witness paths"
		c.Assumptions = []string{"tracked / spent are read through the verif hook VerifState", "provisos (a) and (b) of the statement are enabling conditions FreshGraph / Resettable of the machine"}
		mc := mcRun{"MC_AutogradFlags", 4, 2, true, false}
		dump := mcRun{"MC_AutogradFlags", 3, 2, true, false}
		if c.Thorough {
			// measured: 4 tensors / 3 back-propagations = 2.7 M distinct states (37 s); 4 / 2 = 1.1 M (its transitions are
			// dumped and replayed); 5 tensors did not finish in 40 minutes
			mc = mcRun{"MC_AutogradFlags", 4, 3, true, false}
			dump = mcRun{"MC_AutogradFlags", 4, 2, true, false}
		}
		if err := modelCheck(c, mc, 40*time.Minute); err != nil {
			return err
		}
		if err := dumpAndReplay(c, dump, 40*time.Minute); err != nil {
			return err
		}
		sims, depth := 60, 40
		if c.Thorough {
			sims, depth = 2500, 60
		}
		if err := simulateAndReplay(c, mcRun{"MC_AutogradFlags", 12, 5, true, false}, sims, depth, 30*time.Minute); err != nil {
			return err
		}
		// "tracking never changes forward values" for every operation, shape and argument of the grids of C03 / C04 / C05 /
		// C06 / C14: those cases are executed tracked and with every input untracked; all tensors must be bit-identical
		for _, g := range []struct {
			mod     string
			np, npT int // every np-th case (thorough grids are an order of magnitude larger; a whole one does not fit one TLC process)
		}{{"Gen_C03", 1, 8}, {"Gen_C04", 2, 4}, {"Gen_C05", 2, 4}, {"Gen_C06", 4, 8}, {"Gen_C14", 1, 2}, {"Gen_C02", 16, 32}} {
			np := g.np
			if c.Thorough {
				np = g.npT
			}
			c.Logf("tracked vs untracked execution of the cases of %s (every %d-th case)", g.mod, np)
			files, err := c.GenerateSample(g.mod, np, 30*time.Minute)
			if err != nil {
				return err
			}
			if err := c.TwinReplay(files, 2); err != nil {
				return err
			}
		}
		nt := 150
		if c.Thorough {
			nt = 3000
		}
		return c.ValidateTraces(nt, drive.Opts{Steps: 60, MaxNodes: 16, Resets: true, MaxBPs: 5, ValueCap: 30}, "history")
	})
	register("C10", "model_checking", func(c *run.Ctx) error {
		c.Rule = "TLC explores the Autograd machine over the operations that take or hand out caller-owned slices with the environment action Scribble enabled between any two calls (also between graph construction and BackPropagate) and checks the frame properties C10_ValuesFrozen / C10_GradOnlyInBP / C10_TrackedOnlyByReset / C10_ScribbleIsInert on every step; every transition into an idle state is replayed with the slices REALLY overwritten (dims -> 7, ranges -> {5,9}, tensor-list entries -> another tensor, nested data -> 7, Shape() result -> 7) at the TLC-chosen points and the complete state compared; distinct = distinct witness paths"
		c.AcceptRecorded = true
		c.Assumptions = []string{"gradient VALUES are compared with the specification's design value or its value under the recorded deviation broadcast_grad_mean (finding D2 concerns C07, not immutability); in addition every behaviour with Scribble steps is executed with and without the overwriting and all tensors and gradients must be bit-identical", "besides this check, every symbolic replay of every property snapshots all tensors bit-for-bit before BackPropagate / Update and compares afterwards"}
		mc := mcRun{"MC_AutogradSlices", 3, 1, true, true}
		dump := mcRun{"MC_AutogradSlices", 3, 1, false, true}
		if c.Thorough {
			// 4 tensors: 39.2 M distinct states / 296 M transitions, 28 min with 16 workers (measured); its transition
			// relation cannot be dumped, so the larger histories are bound by simulation instead
			mc = mcRun{"MC_AutogradSlices", 4, 1, true, true}
		}
		if err := modelCheck(c, mc, 60*time.Minute); err != nil {
			return err
		}
		if err := dumpAndReplay(c, dump, 40*time.Minute); err != nil {
			return err
		}
		sims, depth := 40, 30
		if c.Thorough {
			sims, depth = 3000, 50
		}
		if err := simulateAndReplay(c, mcRun{"MC_AutogradSlices", 7, 2, true, true}, sims, depth, 30*time.Minute); err != nil {
			return err
		}
		// repeated back-propagations over leaf-sharing graphs (the Flags configuration: 2 back-propagations): gradient
		// tensors handed out after the first one must be bit-identical after the second
		if err := dumpAndReplay(c, mcRun{"MC_AutogradFlags", 3, 2, true, false}, 40*time.Minute); err != nil {
			return err
		}
		// every operation, shape, rank and argument of the other grids: each case is executed once as it is and once with
		// every slice handed to the library (nested data of every rank, dimension lists, ranges, tensor lists) overwritten
		// right after the call; tensors and gradients must be bit-identical
		for _, g := range []struct {
			mod     string
			np, npT int
		}{{"Gen_C06", 2, 4}, {"Gen_C03", 2, 8}, {"Gen_C04", 2, 4}, {"Gen_C05", 2, 4}, {"Gen_C02", 16, 32}, {"Gen_C16", 1, 2}} {
			np := g.np
			if c.Thorough {
				np = g.npT
			}
			c.Logf("overwriting the caller's slices in the cases of %s (every %d-th case)", g.mod, np)
			files, err := c.GenerateSample(g.mod, np, 30*time.Minute)
			if err != nil {
				return err
			}
			if err := c.TwinReplay(files, 2); err != nil {
				return err
			}
		}
		return nil
	})
}
