package main

import (
	"os"
	"path/filepath"
	"time"

	"qeepverif/internal/run"
)

// symCheck is the common shape of the "exploration, exhaustive in bounds"
// properties: TLC evaluates a generator module of the specification over a
// grid of shapes / arguments and emits, per case, the program, the expected
// outcome and the term of every element; the harness executes each case on
// the real library with several float64 assignments.
type symSpec struct {
	module             string
	partsQ, partsT     int
	assignQ, assignT   int
	timeoutQ, timeoutT time.Duration
	rule               string
	assumptions        []string
	bigFam             string // family of spec/Gen_Big.tla (large tensors through parametric templates) belonging to this property
}

var symAssumptions = []string{
	"the derivative table and the folding rules of spec/Val.tla (cross-checked by TLC against closed forms in spec/MC_Val.tla)",
	"the float64 term evaluator harness/internal/term (Go math package on both sides; first-order rounding-error bound x 4096 as tolerance)",
	"values are sampled (seeded, boundary values included); shapes and arguments are exhaustive within the stated grid",
}

func symCheck(s symSpec) checkFn {
	return func(c *run.Ctx) error {
		parts, assign, timeout := s.partsQ, s.assignQ, s.timeoutQ
		if c.Thorough {
			parts, assign, timeout = s.partsT, s.assignT, s.timeoutT
		}
		if timeout == 0 {
			timeout = 10 * time.Minute
		}
		c.Rule = s.rule
		c.Assumptions = append(append([]string{}, symAssumptions...), s.assumptions...)
		c.Logf("TLC: generating cases from %s in %d processes", s.module, parts)
		files, err := c.Generate(s.module, parts, timeout)
		if err != nil {
			return err
		}
		c.Logf("replaying into the real library, %d assignments per case", assign)
		if err := c.ReplaySym(files, assign); err != nil {
			return err
		}
		if err := c.HarvestSymBP(files); err != nil {
			return err
		}
		if s.bigFam != "" {
			c.Logf("TLC: large-tensor cases (Gen_Big, family %s; templates checked against the definitions on the small grid)", s.bigFam)
			big, err := c.Generate("Gen_Big", 1, timeout, "QV_FAM="+s.bigFam)
			if err != nil {
				return err
			}
			nb := 3
			if c.Thorough {
				nb = 12
			}
			if err := c.ReplaySym(big, nb); err != nil {
				return err
			}
			c.AddExtra("large_tensor_cases", "spec/Gen_Big.tla: tensors of 1000-16000 elements, one parametric term per result; TemplatesAgree checked by TLC")
		}
		c.AddExtra("generator", "spec/"+s.module+".tla evaluated by TLC")
		c.AddExtra("assignments_per_case", assign)
		c.AddExtra("exhaustive", false)
		return nil
	}
}

var c16sym checkFn

func writeWork(c *run.Ctx, name, content string) error {
	if err := os.WriteFile(filepath.Join(c.Work, name), []byte(content), 0o644); err != nil {
		return run.Brokenf("%v", err)
	}
	return nil
}

func init() {
	register("C03", "exploration", symCheck(symSpec{
		bigFam: "c03",
		module: "Gen_C03", partsQ: 4, partsT: 16, assignQ: 6, assignT: 8, timeoutT: 40 * time.Minute,
		rule: "one case per (operation, operand shapes, parameter) of the grid enumerated by TLC (quick: Shapes(3,2) U Shapes(2,3) + 3 high-rank shapes, every broadcast-compatible ordered pair, operation rotated by seed; thorough: Shapes(4,3) U Shapes(6,2), every pair x every operation); every result element compared with the term of the specification under several float64 assignments; distinct = distinct (op, shapes, parameters); non-trivial = some tensor has more than one element",
	}))
	register("C04", "exploration", symCheck(symSpec{
		bigFam: "c04",
		module: "Gen_C04", partsQ: 4, partsT: 16, assignQ: 5, assignT: 10, timeoutT: 40 * time.Minute,
		rule: "one case per (operation, operand shapes): MatMul for all m,n,k and every broadcast-compatible ordered pair of batch shapes (quick: sizes 1..2 + 3 mixed, batch Shapes(2,2)+4; thorough: sizes 1..3, batch Shapes(4,2) U Shapes(2,3), ranks up to 6), Dot for every compatible pair of leading shapes x contracted size 1..3, Transpose for every shape of rank >= 2, rejected shape combinations, and the identity programs (A.B)^T = B^T.A^T, A.I = A, Dot = MatMul(row, column); the same identities are checked by TLC on the specification with rational entries; distinct = distinct (op, shapes); non-trivial = some tensor has more than one element",
	}))
	register("C05", "exploration", symCheck(symSpec{
		bigFam: "c05",
		module: "Gen_C05", partsQ: 2, partsT: 8, assignQ: 10, assignT: 20, timeoutT: 40 * time.Minute,
		rule: "whole-tensor Sum/Max/Min/Avg/Mean/Var/Std for every shape of the grid and the seven Along(dim) forms for every dim of every shape (quick: Shapes(3,2) U Shapes(2,3) + 3 high-rank shapes; thorough: Shapes(4,3) U Shapes(6,2)); invalid dims must be rejected; assignments include ties, zeros, single-element fibres and magnitudes 1e+-150; distinct = distinct (statistic, shape, dim)",
	}))
	register("C06", "exploration", symCheck(symSpec{
		bigFam: "c06",
		module: "Gen_C06", partsQ: 4, partsT: 16, assignQ: 1, assignT: 2, timeoutT: 40 * time.Minute,
		rule:        "one case per (data-movement operation, shape, argument): Slice / Patch with every combination of explicit / omitted / <<0,0>> / whole ranges, block size and position (full product up to rank 2 (3 thorough), one dimension varied above), Concat (every dim, 2 and 3 operands of differing sizes), Reshape (every factorisation), Flatten/Squeeze/UnSqueeze (every dim), Broadcast (every target in the expansion grid), Full/Zeros/Ones/Eye, patch-slice and concat-slice round trips; every tensor is read back through At at every multi-index and compared exactly with iota inputs; distinct = distinct (op, shapes, argument)",
		assumptions: []string{"element values are the row-major positions (the operations are value-parametric), compared exactly"},
	}))
	register("C02", "exploration", symCheck(symSpec{
		bigFam: "c02",
		module: "Gen_C02", partsQ: 8, partsT: 16, assignQ: 8, assignT: 20, timeoutT: 60 * time.Minute,
		rule:        "one case per (operation, operand shapes, argument, subset of tracked operands) for the 33 differentiable operations other than Broadcast: y = op(operands), z = y*g with an untracked weighting g, BackPropagate(z); expected gradients are d(sum z)/d(operand) by symbolic differentiation of the operation's definition (no backward rule in the spec); quick grid: Shapes(2,2)+5 shapes up to rank 5 (element-wise ops on 4 shapes), all dims, Slice/Patch index forms (full product to rank 2), Concat 2-3 operands; thorough: Shapes(3,3) U Shapes(5,2); values restricted to each operation's differentiability domain (no max/min ties, x>0 for Log and fractional powers, base 0 included for exponents 0,1,2); distinct = distinct (op, shapes, argument, tracked subset); non-trivial = more than one element",
		assumptions: []string{"an arbitrary upstream weighting is realised as BackPropagate(y.Mul(g)) with g untracked"},
	}))
	register("C07", "exploration", symCheck(symSpec{
		bigFam: "c07",
		module: "Gen_C07", partsQ: 8, partsT: 16, assignQ: 6, assignT: 12, timeoutT: 60 * time.Minute,
		rule:        "explicit Broadcast: every source shape x every target of the expansion grid (leading dims added, size-1 dims expanded, both, factor 1); implicit expansion: Add/Sub/Mul/Div over every broadcast-compatible ordered pair of different shapes, Dot and MatMul over compatible batch shapes, every non-empty subset of tracked operands; z = y*g, BackPropagate(z); expected = sum of upstream gradient over copies (by differentiation of the definition); each case with factor > 1 also carries the gradient under the recorded deviation broadcast_grad_mean (want / factor) and is classified as that known finding only if it matches it exactly; distinct = distinct (op, shapes, tracked subset)",
		assumptions: []string{"known finding D2 (known_findings.json): cases matching the deviation's prediction are counted as the finding, anything else is a violation"},
	}))
	register("C12", "exploration", symCheck(symSpec{
		module: "Gen_C12", partsQ: 1, partsT: 2, assignQ: 60, assignT: 400,
		rule: "MSE / BCE for batch sizes 1..3 (1..5), CE for batch x classes 1..3 x 1..3 (1..5 x 1..4), prediction tracked and untracked, plus rejected shape combinations; 60 (400) assignments per case drawn from {0, 1, <0, >1, +-1e6, within 1e-12 of either clipping bound on both sides, interior}; value compared with the statement's formula and required finite and >= 0; distinct = distinct (loss, shape, tracked)",
	}))
	register("C13", "exploration", symCheck(symSpec{
		module: "Gen_C13", partsQ: 4, partsT: 8, assignQ: 30, assignT: 150,
		rule:        "loss x shape x {prediction leaf / target tracked variants, prediction = x.Scale(1/2).Add(d), prediction = FC->Sigmoid->BCE, FC->Tanh->MSE, FC->Softmax->CE}: BackPropagate(loss), gradient of the prediction and of everything upstream compared with the derivative of the loss definition (closed forms checked by TLC on rational instances); predictions include exactly 0 and 1 and values within 1e-12 of the bounds (the two bounds themselves excluded as in the statement); untracked inputs must have no gradient; FC cases with batch > 1 carry the asis expectation of finding D2; distinct = distinct program",
		assumptions: []string{"known finding D2 reaches this property only through FC / Softmax upstream of the loss (known_findings.json)"},
	}))
	register("C14", "exploration", symCheck(symSpec{
		bigFam: "c14",
		module: "Gen_C14", partsQ: 2, partsT: 8, assignQ: 12, assignT: 40,
		rule: "Relu, LeakyRelu (nil config, slopes 0, 1/2, -1, 3), Sigmoid, Tanh over every shape of the grid; Softmax for every dim of every shape (and the nil config) together with its sum along dim, required >= 0; dims >= rank or negative must be rejected; inputs include 0, -0, |x| up to 700; distinct = distinct (activation, shape, parameter)",
	}))
	register("C15", "exploration", symCheck(symSpec{
		module: "Gen_C15", partsQ: 4, partsT: 16, assignQ: 12, assignT: 40,
		rule:        "activation x shape x {input is a leaf, input is the interior tensor x.Scale(3)} x parameter (slopes, every Softmax dim), z = act(x)*g, BackPropagate(z); gradient of the input (and of the leaf upstream) compared with the derivative of the activation's definition; at exactly 0 Relu/LeakyRelu accept any value between the one-sided derivatives; Softmax closed form checked by TLC; Softmax cases carry the asis expectation of finding D2; distinct = distinct program",
		assumptions: []string{"known finding D2 reaches this property through the expanding Div inside Softmax (known_findings.json)"},
	}))
	register("C16", "exploration", func(c *run.Ctx) error {
		if err := c16sym(c); err != nil {
			return err
		}
		return fcHistories(c)
	})
	c16sym = symCheck(symSpec{
		module: "Gen_C16", partsQ: 4, partsT: 16, assignQ: 8, assignT: 20,
		rule:        "batch, features, outputs in 1..3 (1..4) x 5 subsets of tracked {W, B, x}; layer built by NewFC, parameters replaced through the Weights() pointers, Forward, z = y*g, BackPropagate(z); values and gradients compared with y[b][o] = W[o]*sum_d x[b][d] + B[o] and its derivatives (distinct symbols everywhere); rejected input ranks; batch > 1 carries the asis expectation of finding D2 for W and B; plus spec/FCParams.tla: EVERY history up to 5 (6) actions of Weights() calls, replacements of W / B through the first pointers ever obtained, the most recent ones or the exported field, and Forward calls - the output of each Forward must be the formula on the parameters currently behind the pointers; distinct = distinct (sizes, tracked subset) + distinct histories",
		assumptions: []string{"known finding D2: W and B are expanded over the batch (known_findings.json)"},
	})
	register("C17", "exploration", symCheck(symSpec{
		bigFam: "c17",
		module: "Gen_C17", partsQ: 2, partsT: 8, assignQ: 8, assignT: 24,
		rule: "shape x learning rate {nil config, 0, -1/2, 2, 1/3}: w tracked leaf, BackPropagate(w*c) so that grad(w) = c, Update(&w): new tensor = w - lr*g element-wise with the same shape, pointer target replaced, old tensor object / values / gradient unchanged (bit-for-bit snapshots); a tensor without gradient must be rejected with nothing replaced; distinct = distinct (shape, learning rate)",
	}))
}
