package main

import (
	"time"

	"qeepverif/internal/run"
)

// symCheck is the common shape of the "exploration, exhaustive in bounds"
// properties: TLC evaluates a generator module of the specification over a
// grid of shapes / arguments and emits, per case, the program, the expected
// outcome and the term of every element; the harness executes each case on
// the real library with several float64 assignments.
type symSpec struct {
	module          string
	partsQ, partsT  int
	assignQ, assignT int
	timeoutQ, timeoutT time.Duration
	rule            string
	assumptions     []string
}

var symAssumptions = []string{
	"the derivative table and the folding rules of spec/Val.tla (cross-checked by TLC against closed forms in spec/MC_Val.tla)",
	"the float64 term evaluator harness/internal/term (Go math package on both sides; first-order rounding-error bound x 4096 as tolerance)",
	"values are sampled (seeded, boundary values included); shapes and arguments are exhaustive within the stated grid",
}

func symCheck(s symSpec) checkFn {
	return func(c *run.Ctx) error {
		parts, assign, timeout := s.partsQ, s.assignQ, s.timeoutQ
		if c.Thorough {
			parts, assign, timeout = s.partsT, s.assignT, s.timeoutT
		}
		if timeout == 0 {
			timeout = 10 * time.Minute
		}
		c.Rule = s.rule
		c.Assumptions = append(append([]string{}, symAssumptions...), s.assumptions...)
		c.Logf("TLC: generating cases from %s in %d processes", s.module, parts)
		files, err := c.Generate(s.module, parts, timeout)
		if err != nil {
			return err
		}
		c.Logf("replaying into the real library, %d assignments per case", assign)
		if err := c.ReplaySym(files, assign); err != nil {
			return err
		}
		c.AddExtra("generator", "spec/"+s.module+".tla evaluated by TLC")
		c.AddExtra("assignments_per_case", assign)
		c.AddExtra("exhaustive", false)
		return nil
	}
}

func init() {
	register("C03", "exploration", symCheck(symSpec{
		module: "Gen_C03", partsQ: 4, partsT: 16, assignQ: 6, assignT: 12, timeoutT: 40 * time.Minute,
		rule: "one case per (operation, operand shapes, parameter) of the grid enumerated by TLC (quick: Shapes(3,2) U Shapes(2,3) + 3 high-rank shapes, every broadcast-compatible ordered pair, operation rotated by seed; thorough: Shapes(4,3) U Shapes(6,2), every pair x every operation); every result element compared with the term of the specification under several float64 assignments; distinct = distinct (op, shapes, parameters); non-trivial = some tensor has more than one element",
	}))
}
