package main

import (
	"fmt"
	"os"
	"os/exec"
	"path/filepath"
	"strconv"
	"strings"
	"time"

	"qeepverif/internal/bind"
	"qeepverif/internal/run"

	"github.com/sahandsafizadeh/qeep/tensor"
)

// ladder builds a graph of n reconvergent stages h <- (h + h) - h over one tracked leaf: 3^n paths from the root to
// the leaf, but only a handful of edges per stage. It is run as a subprocess with QEEP_VERIF_TRACE set so that the
// library's own file sink records the back-propagation; the derivative of every stage is 1, so the leaf's gradient
// must be exactly 1 whatever the depth.
func ladder(arg string) (code int) {
	defer func() {
		if r := recover(); r != nil {
			fmt.Println("LADDER-ERROR panic:", r)
			code = 1
		}
	}()
	kind := 0
	if k := strings.IndexByte(arg, ':'); k >= 0 {
		kind, _ = strconv.Atoi(arg[k+1:])
		arg = arg[:k]
	}
	n, err := strconv.Atoi(arg)
	if err != nil {
		return 2
	}
	x, err := bind.New([]int{2}, []float64{1.5, -2}, true)
	if err != nil {
		return 2
	}
	h := x
	var ferr error
	must := func(t tensor.Tensor, err error) tensor.Tensor {
		if err != nil && ferr == nil {
			ferr = err
		}
		return t
	}
	for i := 0; i < n && ferr == nil; i++ {
		switch kind {
		case 0: // (h + h) - h: paths of different lengths reconverge
			a := must(h.Add(h))
			if ferr == nil {
				h = must(a.Sub(h))
			}
		case 1: // (h + h) * 0.5: one consumer takes the same tensor twice
			a := must(h.Add(h))
			if ferr == nil {
				h = a.Scale(0.5)
			}
		case 2: // h*0.5 + h*0.5: a diamond whose two paths have the same length
			a, b := h.Scale(0.5), h.Scale(0.5)
			if ferr == nil {
				h = must(a.Add(b))
			}
		default: // (h*0.25 + h*0.25) + (h*0.25 + h*0.25): four equally long paths per stage
			q := make([]tensor.Tensor, 4)
			for j := range q {
				q[j] = h.Scale(0.25)
			}
			if ferr == nil {
				l, r := must(q[0].Add(q[1])), must(q[2].Add(q[3]))
				if ferr == nil {
					h = must(l.Add(r))
				}
			}
		}
	}
	if ferr != nil {
		fmt.Println("LADDER-ERROR", ferr)
		return 1
	}
	start := time.Now()
	if err := tensor.BackPropagate(h); err != nil {
		fmt.Println("LADDER-ERROR", err)
		return 1
	}
	if x.Gradient() == nil {
		fmt.Println("LADDER-ERROR the leaf has no gradient after BackPropagate")
		return 1
	}
	_, g, err := bind.Read(x.Gradient())
	if err != nil {
		fmt.Println("LADDER-ERROR", err)
		return 1
	}
	fmt.Printf("LADDER depth=%d seconds=%.3f grad=%v\n", n, time.Since(start).Seconds(), g)
	return 0
}

// manyBP performs n independent back-propagations of y = (x * w) + x in ONE process and checks every one of them:
// per-process counters, stamps and pools of the library (walk numbers, visited marks, recycled buffers) must not make
// the k-th back-propagation of a process differ from the first.
func manyBP(arg string) (code int) {
	defer func() {
		if r := recover(); r != nil {
			fmt.Println("MANYBP-ERROR panic:", r)
			code = 1
		}
	}()
	n, err := strconv.Atoi(arg)
	if err != nil {
		return 2
	}
	for k := 1; k <= n; k++ {
		x, _ := bind.New([]int{2}, []float64{1.5, -2}, true)
		w, _ := bind.New([]int{2}, []float64{float64(k%7) + 1, 0.25}, false)
		m, err := x.Mul(w)
		if err != nil {
			fmt.Println("MANYBP-ERROR", err)
			return 1
		}
		y, err := m.Add(x)
		if err != nil {
			fmt.Println("MANYBP-ERROR", err)
			return 1
		}
		if err := tensor.BackPropagate(y); err != nil {
			fmt.Printf("MANYBP-ERROR back-propagation %d of this process failed: %v\n", k, err)
			return 1
		}
		g := x.Gradient()
		if g == nil {
			fmt.Printf("MANYBP-ERROR back-propagation %d of this process left no gradient on the tracked leaf\n", k)
			return 1
		}
		_, flat, err := bind.Read(g)
		if err != nil || len(flat) != 2 || flat[0] != float64(k%7)+2 || flat[1] != 1.25 {
			fmt.Printf("MANYBP-ERROR back-propagation %d of this process: gradient %v, expected [%v 1.25]\n", k, flat, float64(k%7)+2)
			return 1
		}
	}
	fmt.Println("MANYBP-DONE", n)
	return 0
}

func manyBPCheck(c *run.Ctx, n int) error {
	self, err := os.Executable()
	if err != nil {
		return run.Brokenf("%v", err)
	}
	runOne := func() string {
		out, _ := exec.Command("timeout", "600", self, "manybp", fmt.Sprint(n)).CombinedOutput()
		return string(out)
	}
	out := runOne()
	if strings.Contains(out, "MANYBP-ERROR") {
		if again := runOne(); strings.Contains(again, "MANYBP-ERROR") {
			c.Violate(fmt.Sprintf("%d independent back-propagations in one process: %s", n, strings.TrimSpace(run.Tail(out, 2))), map[string]any{"manybp": n, "output": run.Tail(out, 5)})
			return nil
		}
	}
	if !strings.Contains(out, "MANYBP-DONE") {
		return run.Brokenf("many-back-propagations subprocess failed: %s", run.Tail(out, 5))
	}
	c.AddExtra("many_backpropagations_one_process", fmt.Sprintf("%d independent graphs back-propagated and checked in one process (16-bit counters wrap at 65536)", n))
	c.Count(fmt.Sprintf("manybp-%d", n), true)
	return nil
}

// ladderCheck: a deep graph with exponentially many paths must back-propagate in time linear in its size, applying
// every edge exactly once (validated structurally by TLC) and leaving the exact derivative.
// ladderKinds: the stage shapes of the ladder (see ladder); every stage has derivative exactly 1.
var ladderKinds = []string{"(h+h)-h", "(h+h)*0.5", "h*0.5+h*0.5", "(h/4+h/4)+(h/4+h/4)"}

// ladderCheck: kind selects the stage shape; terminationOnly: only "returns, without an error, within the limit" is
// judged (C09) - the gradient and the recorded traversal are C01's business.
func ladderCheck(c *run.Ctx, depth, kind int, terminationOnly bool) error {
	self, err := os.Executable()
	if err != nil {
		return run.Brokenf("%v", err)
	}
	dir := filepath.Join(c.Work, fmt.Sprintf("ladder%d", kind))
	os.MkdirAll(dir, 0o755)
	runOne := func(n int, limit time.Duration) (string, bool) {
		cmd := exec.Command("timeout", fmt.Sprint(int(limit.Seconds())), self, "ladder", fmt.Sprintf("%d:%d", n, kind))
		cmd.Env = append(os.Environ(), "QEEP_VERIF_TRACE="+dir)
		out, err := cmd.CombinedOutput()
		if err != nil {
			if ee, ok := err.(*exec.ExitError); ok && ee.ExitCode() == 124 {
				return string(out), true
			}
		}
		return string(out), false
	}
	out, timedOut := runOne(depth, 60*time.Second)
	if timedOut {
		// confirm on a depth where even an exponential walk terminates, and exhibit the over-count
		small, to2 := runOne(14, 120*time.Second)
		c.Violate(fmt.Sprintf("back-propagating a ladder of %d reconvergent stages h <- %s did not finish within 60 s (a 14-stage ladder: %s timed out=%v)", depth, ladderKinds[kind], strings.TrimSpace(small), to2),
			map[string]any{"ladder_depth": depth, "ladder_kind": kind})
		return nil
	}
	if strings.Contains(out, "LADDER-ERROR") {
		if again, _ := runOne(depth, 60*time.Second); strings.Contains(again, "LADDER-ERROR") {
			c.Violate(fmt.Sprintf("back-propagating a ladder of %d reconvergent stages h <- %s over one tracked leaf fails: %s", depth, ladderKinds[kind], strings.TrimSpace(out)), map[string]any{"ladder_depth": depth, "ladder_kind": kind, "output": out})
			return nil
		}
	}
	if !strings.Contains(out, "LADDER depth=") {
		return run.Brokenf("ladder subprocess failed: %s", out)
	}
	if terminationOnly {
		c.Count(fmt.Sprintf("ladder-%d-kind-%d", depth, kind), true)
		return nil
	}
	if !strings.Contains(out, "grad=[1 1]") {
		c.Violate(fmt.Sprintf("ladder of %d stages h <- %s: the leaf's gradient must be exactly [1 1]: %s", depth, ladderKinds[kind], strings.TrimSpace(out)), map[string]any{"ladder_depth": depth, "ladder_kind": kind, "output": out})
		return nil
	}
	files, _ := filepath.Glob(filepath.Join(dir, "*.ndjson"))
	if len(files) == 0 {
		return run.Brokenf("the ladder run recorded no trace")
	}
	res, err := c.TLC(run.TLCOpts{Module: "Trace_BPStruct", Config: "Trace_BPStruct.cfg", Workers: 1, HeapMB: 6000, Timeout: 20 * time.Minute, Env: []string{"QV_TRACE=" + files[0]}, Tag: "ladder"})
	if err != nil {
		return err
	}
	if strings.Contains(res.Out, "TRACE-REJECTED-AT") {
		c.Violate(fmt.Sprintf("the back-propagation of the %d-stage ladder h <- %s is not a behaviour of the specification (an edge applied twice, too early, or missing): %s", depth, ladderKinds[kind], run.Tail(res.Out, 3)),
			map[string]any{"ladder_depth": depth, "ladder_kind": kind})
		return nil
	}
	if res.ExitCode != 0 || strings.Contains(res.Out, "Error:") {
		return run.Brokenf("TLC failed on the ladder trace:\n%s", run.Tail(res.Out, 20))
	}
	b, _ := os.ReadFile(files[0])
	c.AddExtra(fmt.Sprintf("ladder_kind_%d", kind), fmt.Sprintf("%d reconvergent stages h <- %s (exponentially many paths): %s; %d edge applications validated by TLC (each edge exactly once, consumers complete)", depth, ladderKinds[kind], strings.TrimSpace(out), strings.Count(string(b), "\"ev\":\"edge\"")))
	c.Traces++
	c.Count(fmt.Sprintf("ladder-%d-kind-%d", depth, kind), true)
	return nil
}

// replayLadder re-runs a ladder witness: the back-propagation must return without an error within the limit and (for
// C01) leave the gradient [1 1] on the leaf.
func replayLadder(id, path string, depth, kind int) int {
	self, err := os.Executable()
	if err != nil || kind < 0 || kind >= len(ladderKinds) {
		return 2
	}
	out, err := exec.Command("timeout", "60", self, "ladder", fmt.Sprintf("%d:%d", depth, kind)).CombinedOutput()
	what := ""
	if ee, ok := err.(*exec.ExitError); ok && ee.ExitCode() == 124 {
		what = "did not finish within 60 s"
	} else if strings.Contains(string(out), "LADDER-ERROR") {
		what = "fails: " + strings.TrimSpace(string(out))
	} else if !strings.Contains(string(out), "LADDER depth=") {
		fmt.Fprintf(os.Stderr, "ladder subprocess failed: %s\n", out)
		return 2
	} else if id != "C09" && !strings.Contains(string(out), "grad=[1 1]") {
		what = "leaves a gradient other than [1 1] on the leaf: " + strings.TrimSpace(string(out))
	}
	if what != "" {
		fmt.Printf("VIOLATION property=%s replay=%s\n  back-propagating a ladder of %d stages h <- %s %s\n", id, path, depth, ladderKinds[kind], what)
		return 1
	}
	fmt.Printf("%s: witness %s no longer fails\n", id, path)
	return 0
}
