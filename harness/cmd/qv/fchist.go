package main

import (
	"bufio"
	"encoding/json"
	"fmt"
	"strconv"
	"strings"
	"time"

	"qeepverif/internal/bind"
	"qeepverif/internal/run"
	"qeepverif/internal/term"

	"github.com/sahandsafizadeh/qeep/component/layers"
	"github.com/sahandsafizadeh/qeep/tensor"
)

type fcBeh struct {
	P [][]any   `json:"p"`
	Y []*term.T `json:"y"`
}

func fcW(v int) tensor.Tensor {
	t, _ := bind.New([]int{2}, []float64{float64(3*v + 1), float64(-v - 2)}, true)
	return t
}
func fcB(v int) tensor.Tensor {
	t, _ := bind.New([]int{2}, []float64{float64(v) / 2, float64(v - 1)}, true)
	return t
}

// fcReplay executes a history of Weights() calls, replacements (through the first pointers ever
// obtained, the most recent ones, or the exported field) and Forward calls; the last action is a
// Forward whose output must be the specification's.
func fcReplay(b *fcBeh) string {
	return run.Guard(func() string { return fcReplay0(b) })
}

func fcReplay0(b *fcBeh) string {
	layer, err := layers.NewFC(&layers.FCConfig{Inputs: 2, Outputs: 2})
	if err != nil {
		return "HARNESS: " + err.Error()
	}
	layer.Weight, layer.Bias = fcW(0), fcB(0)
	x, _ := bind.New([]int{2, 2}, []float64{1, -2, 0.5, 3}, false)
	x3, _ := bind.New([]int{1, 2, 2}, []float64{1, -2, 0.5, 3}, false) // rank 3: outside Forward's precondition (rank 2)
	var first, last, raw []layers.Weight
	bad := ""
	get := func() {
		raw = layer.Weights() // the returned list itself (the caller may overwrite it)
		if len(raw) != 2 || raw[0].Value == nil || raw[1].Value == nil {
			bad = fmt.Sprintf("Weights() returned %d entries / nil pointers", len(raw))
			return
		}
		last = append([]layers.Weight{}, raw...) // the pointers, kept separately
		if first == nil {
			first = last
		}
	}
	var y tensor.Tensor
	for i, a := range b.P {
		switch a[0].(string) {
		case "weights":
			get()
			if bad != "" {
				return fmt.Sprintf("action %d: %s", i, bad)
			}
		case "swap", "copyBW":
			via := first
			if a[1].(string) == "last" {
				via = last
			}
			if via == nil {
				get()
				via = last
			}
			if bad != "" {
				return fmt.Sprintf("action %d: %s", i, bad)
			}
			tw, tb := *via[0].Value, *via[1].Value
			*via[0].Value = tb
			if a[0].(string) == "swap" {
				*via[1].Value = tw
			}
		case "scribble":
			if raw == nil {
				get()
			}
			for k := range raw {
				raw[k] = layers.Weight{}
			}
		case "badforward":
			if r, err := layer.Forward(x3); err == nil || r != nil {
				return fmt.Sprintf("action %d: Forward accepted an input of rank 3: %v", i, err)
			}
		case "setW", "setB":
			v := int(a[1].(float64))
			idx, nt := 0, fcW(v)
			if a[0].(string) == "setB" {
				idx, nt = 1, fcB(v)
			}
			switch a[2].(string) {
			case "field":
				if idx == 0 {
					layer.Weight = nt
				} else {
					layer.Bias = nt
				}
			case "first":
				if first == nil {
					get()
				}
				if bad != "" {
					return fmt.Sprintf("action %d: %s", i, bad)
				}
				*first[idx].Value = nt
			case "last":
				if last == nil {
					get()
				}
				if bad != "" {
					return fmt.Sprintf("action %d: %s", i, bad)
				}
				*last[idx].Value = nt
			}
		case "forward":
			y, err = layer.Forward(x)
			if err != nil {
				return fmt.Sprintf("action %d: Forward failed: %v", i, err)
			}
		}
	}
	dims, flat, err := bind.Read(y)
	if err != nil {
		return err.Error()
	}
	if fmt.Sprint(dims) != "[2 2]" {
		return fmt.Sprintf("output shape %v", dims)
	}
	for k, tm := range b.Y {
		want := tm.Eval(nil, 1).V
		if !near(flat[k], want) {
			return fmt.Sprintf("Forward output element %d is %v, with the parameters currently behind the pointers it must be %v", k, flat[k], want)
		}
	}
	return ""
}

// fcHistories model-checks spec/FCParams.tla and replays every Forward of every history.
func fcHistories(c *run.Ctx) error {
	maxLen := 5
	if c.Thorough {
		maxLen = 6
	}
	cfg := fmt.Sprintf("SPECIFICATION Spec\nCONSTANTS MaxLen = %d\nPROPERTIES HistoryFree\nACTION_CONSTRAINT Dump\nCHECK_DEADLOCK FALSE\n", maxLen)
	if err := writeWork(c, "fcparams.cfg", cfg); err != nil {
		return err
	}
	c.Logf("TLC enumerating all parameter-replacement histories up to %d actions", maxLen)
	res, err := c.MustTLC(run.TLCOpts{Module: "FCParams", Config: "fcparams.cfg", Workers: 1, HeapMB: 8000, Timeout: 30 * time.Minute, Tag: "fcparams"})
	if err != nil {
		return err
	}
	n := 0
	sc := bufio.NewScanner(strings.NewReader(res.Out))
	sc.Buffer(make([]byte, 1<<20), 1<<26)
	for sc.Scan() {
		line := sc.Text()
		if !strings.HasPrefix(line, "\"{") {
			continue
		}
		s, err := strconv.Unquote(line)
		if err != nil {
			return run.Brokenf("dump: %v", err)
		}
		var b fcBeh
		if err := json.Unmarshal([]byte(s), &b); err != nil {
			return run.Brokenf("dump: %v", err)
		}
		d := fcReplay(&b)
		if strings.HasPrefix(d, "HARNESS") {
			return run.Brokenf("%s", d)
		}
		if d != "" {
			if d2 := fcReplay(&b); d2 != "" {
				c.Violate(fmt.Sprintf("FC parameter history %v: %s", b.P, d), map[string]any{"fchist": b, "detail": d})
			}
		}
		n++
		c.Count("fchist"+s, len(b.P) >= 2)
		if n%2999 == 1 {
			c.Sample(map[string]any{"fc_history": b.P})
		}
	}
	if n == 0 {
		return run.Brokenf("no FC histories dumped")
	}
	c.AddExtra("fc_histories_replayed", fmt.Sprintf("%d Forward calls at the end of distinct histories (all histories up to %d actions: %d states)", n, maxLen, res.Distinct))
	return nil
}
