package main

import (
	"encoding/json"
	"fmt"
	"strings"
	"time"

	"qeepverif/internal/bind"
	"qeepverif/internal/drive"
	"qeepverif/internal/run"

	"github.com/sahandsafizadeh/qeep/component/initializers"
	"github.com/sahandsafizadeh/qeep/component/layers"
	"github.com/sahandsafizadeh/qeep/component/layers/activations"
	"github.com/sahandsafizadeh/qeep/component/losses"
	"github.com/sahandsafizadeh/qeep/component/metrics"
	"github.com/sahandsafizadeh/qeep/component/optimizers"
	"github.com/sahandsafizadeh/qeep/tensor"
)

type c09Case struct {
	Call map[string]json.RawMessage `json:"call"`
	Ok   bool                       `json:"ok"`
	Dims []int                      `json:"dims"`
}

func isNilDims(d []int) bool { return len(d) == 1 && d[0] == -99 }

func (c *c09Case) str(k string) string {
	var s string
	json.Unmarshal(c.Call[k], &s)
	return s
}
func (c *c09Case) num(k string) int {
	var n int
	json.Unmarshal(c.Call[k], &n)
	return n
}
func (c *c09Case) boolean(k string) bool {
	var b bool
	json.Unmarshal(c.Call[k], &b)
	return b
}
func (c *c09Case) ints(k string) []int {
	var v []int
	json.Unmarshal(c.Call[k], &v)
	if v == nil {
		v = []int{}
	}
	return v
}

// dimsArg returns the slice to pass (nil for the nil marker)
func (c *c09Case) dimsArg(k string) []int {
	d := c.ints(k)
	if isNilDims(d) {
		return nil
	}
	return d
}

func iotaTensor(dims []int, tracked bool) tensor.Tensor {
	if isNilDims(dims) {
		return nil
	}
	n := bind.Prod(dims)
	v := make([]float64, n)
	for i := range v {
		v[i] = float64(i%5) + 0.5
	}
	t, err := bind.New(dims, v, tracked)
	if err != nil {
		panic("HARNESS: " + err.Error())
	}
	return t
}

type badInit struct{ kind string }

func (b *badInit) Init(shape []int) (tensor.Tensor, error) {
	switch b.kind {
	case "wrong-rank":
		return tensor.Zeros([]int{1, 1}, nil)
	case "wrong-size":
		return tensor.Zeros([]int{shape[0] + 1}, nil)
	}
	return nil, nil
}

func initOf(kind string) (layers.Initializer, bool) {
	switch kind {
	case "default":
		return nil, false
	case "nilinit":
		return nil, true
	case "full":
		return initializers.NewFull(&initializers.FullConfig{Value: 2}), true
	}
	return &badInit{kind}, true
}

func nested(raw json.RawMessage, depth int) (any, error) {
	switch depth {
	case 0:
		var v float64
		return v, json.Unmarshal(raw, &v)
	case 1:
		v := []float64{}
		return v, json.Unmarshal(raw, &v)
	case 2:
		v := [][]float64{}
		return v, json.Unmarshal(raw, &v)
	case 3:
		v := [][][]float64{}
		return v, json.Unmarshal(raw, &v)
	case 4:
		v := [][][][]float64{}
		return v, json.Unmarshal(raw, &v)
	}
	return nil, fmt.Errorf("depth %d", depth)
}

type outcome struct {
	err    error
	dims   []int
	hasRes bool
	note   string
}

func resOf(t tensor.Tensor, err error) outcome {
	o := outcome{err: err}
	if t != nil {
		o.hasRes = true
		if err == nil {
			// the accessors of a fresh result, Gradient() before anything else has touched its context
			if g := t.Gradient(); g != nil {
				o.note = "a fresh result already has a gradient"
			}
			t.NElems()
			// reading every element catches results that are accepted but malformed
			d, _, rerr := bind.Read(t)
			if rerr != nil {
				o.note = "result cannot be read back: " + rerr.Error()
			}
			o.dims = d
		}
	}
	return o
}

func exec09(c *c09Case) outcome {
	fn := c.str("fn")
	switch fn {
	case "full":
		return resOf(tensor.Full(c.dimsArg("dims"), 1.5, nil))
	case "zeros":
		return resOf(tensor.Zeros(c.dimsArg("dims"), &tensor.Config{Device: tensor.CPU, GradTrack: true}))
	case "ones":
		return resOf(tensor.Ones(c.dimsArg("dims"), nil))
	case "eye":
		return resOf(tensor.Eye(c.num("n"), nil))
	case "ctor-conf":
		conf := &tensor.Config{Device: tensor.Device(c.num("device")), GradTrack: c.boolean("track")}
		var o outcome
		switch c.str("ctor") {
		case "full":
			o = resOf(tensor.Full([]int{2, 3}, 1.5, conf))
		case "zeros":
			o = resOf(tensor.Zeros([]int{2, 3}, conf))
		case "ones":
			o = resOf(tensor.Ones([]int{2, 3}, conf))
		case "eye":
			o = resOf(tensor.Eye(2, conf))
		case "randu":
			o = resOf(tensor.RandU([]int{2, 3}, 0, 1, conf))
		case "randn":
			o = resOf(tensor.RandN([]int{2, 3}, 0, 1, conf))
		case "tensorof":
			o = resOf(tensor.TensorOf([]float64{1, 2}, conf))
		}
		return o
	case "randu":
		return resOf(tensor.RandU(c.dimsArg("dims"), float64(c.num("lo")), float64(c.num("hi")), nil))
	case "randn":
		return resOf(tensor.RandN(c.dimsArg("dims"), 0.5, float64(c.num("sigma")), nil))
	case "tensorof":
		depth := c.num("depth")
		data, err := nested(c.Call["data"], depth)
		if err != nil {
			panic("HARNESS: " + err.Error())
		}
		var m map[string]json.RawMessage
		_ = m
		switch v := data.(type) {
		case float64:
			return resOf(tensor.TensorOf(v, nil))
		case []float64:
			return resOf(tensor.TensorOf(v, nil))
		case [][]float64:
			return resOf(tensor.TensorOf(v, nil))
		case [][][]float64:
			return resOf(tensor.TensorOf(v, nil))
		case [][][][]float64:
			return resOf(tensor.TensorOf(v, nil))
		}
	case "at":
		t := iotaTensor(c.ints("dims"), false)
		idx := c.ints("index")
		var err error
		if isNilDims(idx) {
			_, err = t.At()
		} else {
			_, err = t.At(idx...)
		}
		return outcome{err: err, hasRes: err == nil, dims: []int{}}
	case "method":
		op := c.str("op")
		var par bind.Par
		json.Unmarshal(c.Call["par"], &par)
		var argd [][]int
		json.Unmarshal(c.Call["args"], &argd)
		args := make([]tensor.Tensor, len(argd))
		for i, d := range argd {
			if d == nil {
				d = []int{}
			}
			args[i] = iotaTensor(d, i == 0)
		}
		if op == "equals" {
			_, err := args[0].Equals(args[1])
			return outcome{err: err, hasRes: err == nil, dims: []int{}}
		}
		return resOf(bind.Apply(op, par, args))
	case "concat":
		var par bind.Par
		json.Unmarshal(c.Call["par"], &par)
		var argd [][]int
		json.Unmarshal(c.Call["args"], &argd)
		if len(argd) == 1 && len(argd[0]) == 2 && argd[0][0] == -99 {
			return resOf(tensor.Concat(nil, par.Dim))
		}
		list := make([]tensor.Tensor, len(argd))
		for i, d := range argd {
			if d == nil {
				d = []int{}
			}
			list[i] = iotaTensor(d, i == 1)
		}
		return resOf(tensor.Concat(list, par.Dim))
	case "backprop":
		err := tensor.BackPropagate(iotaTensor(c.ints("dims"), true))
		return outcome{err: err, hasRes: err == nil, dims: []int{}}
	case "fc-new":
		var conf *layers.FCConfig
		if !c.boolean("nilconf") {
			conf = &layers.FCConfig{Inputs: c.num("inputs"), Outputs: c.num("outputs")}
			w, wset := initOf(c.str("winit"))
			b, bset := initOf(c.str("binit"))
			if wset || bset {
				conf.Initializers = map[string]layers.Initializer{}
				if wset {
					conf.Initializers["Weight"] = w
				}
				if bset {
					conf.Initializers["Bias"] = b
				}
			}
		}
		if conf != nil && conf.Initializers != nil {
			// the caller's map is first seen by a call that is rejected (Inputs = 0): a rejected call has no effect, so the
			// call under test - which re-uses the map, as a caller fixing its mistake would - has its specified outcome
			if l0, e0 := layers.NewFC(&layers.FCConfig{Inputs: 0, Outputs: 2, Initializers: conf.Initializers}); e0 == nil || l0 != nil {
				return outcome{note: "NewFC accepted Inputs = 0"}
			}
		}
		l, err := layers.NewFC(conf)
		if l == nil {
			return outcome{err: err}
		}
		o := resOf(l.Weight, err)
		return o
	case "fc-forward":
		l, err := layers.NewFC(&layers.FCConfig{Inputs: 3, Outputs: c.num("outputs")})
		if err != nil {
			panic("HARNESS: " + err.Error())
		}
		return resOf(l.Forward(tensorArgs(c)...))
	case "act-forward":
		xs := tensorArgs(c)
		switch c.str("act") {
		case "relu":
			return resOf(activations.NewRelu().Forward(xs...))
		case "leakyrelu":
			return resOf(activations.NewLeakyRelu(nil).Forward(xs...))
		case "sigmoid":
			return resOf(activations.NewSigmoid().Forward(xs...))
		case "tanhact":
			return resOf(activations.NewTanh().Forward(xs...))
		case "softmax":
			l, err := activations.NewSoftmax(&activations.SoftmaxConfig{Dim: c.num("dim")})
			if err != nil {
				panic("HARNESS: " + err.Error())
			}
			return resOf(l.Forward(xs...))
		}
	case "softmax-new":
		var conf *activations.SoftmaxConfig
		if !c.boolean("nilconf") {
			conf = &activations.SoftmaxConfig{Dim: c.num("dim")}
		}
		l, err := activations.NewSoftmax(conf)
		return outcome{err: err, hasRes: l != nil, dims: []int{}}
	case "input-forward":
		l := layers.NewInput()
		seedT, _ := tensor.Zeros(nil, nil)
		if c.boolean("seed") {
			l.SeedFunc = func() tensor.Tensor { return seedT }
		}
		return resOf(l.Forward(tensorArgs(c)...))
	case "loss":
		p, t := iotaTensor(c.ints("p"), true), iotaTensor(c.ints("t"), false)
		switch c.str("loss") {
		case "mse":
			return resOf(losses.NewMSE().Compute(p, t))
		case "bce":
			return resOf(losses.NewBCE().Compute(p, t))
		case "ce":
			return resOf(losses.NewCE().Compute(p, t))
		}
	case "accuracy":
		err := metrics.NewAccuracy().Accumulate(iotaTensor(c.ints("p"), false), iotaTensor(c.ints("t"), false))
		return outcome{err: err, hasRes: err == nil, dims: []int{}}
	case "sgd-update":
		var conf *optimizers.SGDConfig
		if !c.boolean("nilconf") {
			conf = &optimizers.SGDConfig{LearningRate: 0.5}
		}
		opt := optimizers.NewSGD(conf)
		var err error
		switch c.str("state") {
		case "nil-pointer":
			err = opt.Update(nil)
		case "nil-tensor":
			var w tensor.Tensor
			err = opt.Update(&w)
		case "no-grad":
			w := iotaTensor([]int{2}, true)
			err = opt.Update(&w)
		case "untracked":
			w := iotaTensor([]int{2}, false)
			err = opt.Update(&w)
		case "has-grad":
			w := iotaTensor([]int{2}, true)
			if e := tensor.BackPropagate(w.Scale(2)); e != nil {
				panic("HARNESS: " + e.Error())
			}
			err = opt.Update(&w)
		}
		return outcome{err: err, hasRes: err == nil, dims: []int{}}
	case "init-new":
		a, b := c.num("a"), c.num("b")
		nilc := c.boolean("nilconf")
		var err error
		var got any
		switch c.str("kind") {
		case "full":
			if nilc {
				got = initializers.NewFull(nil)
			} else {
				got = initializers.NewFull(&initializers.FullConfig{Value: float64(a)})
			}
		case "uniform":
			var conf *initializers.UniformConfig
			if !nilc {
				conf = &initializers.UniformConfig{Lower: float64(a), Upper: float64(b)}
			}
			var x *initializers.Uniform
			x, err = initializers.NewUniform(conf)
			if x != nil {
				got = x
			}
		case "normal":
			var conf *initializers.NormalConfig
			if !nilc {
				conf = &initializers.NormalConfig{Mean: float64(a), StdDev: float64(b)}
			}
			var x *initializers.Normal
			x, err = initializers.NewNormal(conf)
			if x != nil {
				got = x
			}
		case "he-uniform":
			var conf *initializers.HeUniformConfig
			if !nilc {
				conf = &initializers.HeUniformConfig{FanIn: a}
			}
			var x *initializers.HeUniform
			x, err = initializers.NewHeUniform(conf)
			if x != nil {
				got = x
			}
		case "he-normal":
			var conf *initializers.HeNormalConfig
			if !nilc {
				conf = &initializers.HeNormalConfig{FanIn: a}
			}
			var x *initializers.HeNormal
			x, err = initializers.NewHeNormal(conf)
			if x != nil {
				got = x
			}
		case "xavier-uniform":
			var conf *initializers.XavierUniformConfig
			if !nilc {
				conf = &initializers.XavierUniformConfig{FanIn: a, FanOut: b}
			}
			var x *initializers.XavierUniform
			x, err = initializers.NewXavierUniform(conf)
			if x != nil {
				got = x
			}
		case "xavier-normal":
			var conf *initializers.XavierNormalConfig
			if !nilc {
				conf = &initializers.XavierNormalConfig{FanIn: a, FanOut: b}
			}
			var x *initializers.XavierNormal
			x, err = initializers.NewXavierNormal(conf)
			if x != nil {
				got = x
			}
		}
		return outcome{err: err, hasRes: got != nil, dims: []int{}}
	case "init-init":
		var in layers.Initializer
		var err error
		switch c.str("kind") {
		case "full":
			in = initializers.NewFull(nil)
		case "uniform":
			in, err = initializers.NewUniform(nil)
		case "normal":
			in, err = initializers.NewNormal(nil)
		case "he-uniform":
			in, err = initializers.NewHeUniform(&initializers.HeUniformConfig{FanIn: 3})
		case "he-normal":
			in, err = initializers.NewHeNormal(&initializers.HeNormalConfig{FanIn: 3})
		case "xavier-uniform":
			in, err = initializers.NewXavierUniform(&initializers.XavierUniformConfig{FanIn: 3, FanOut: 2})
		case "xavier-normal":
			in, err = initializers.NewXavierNormal(&initializers.XavierNormalConfig{FanIn: 3, FanOut: 2})
		}
		if err != nil {
			panic("HARNESS: " + err.Error())
		}
		return resOf(in.Init(c.dimsArg("dims")))
	}
	panic("HARNESS: unknown call " + fn)
}

func tensorArgs(c *c09Case) []tensor.Tensor {
	var argd [][]int
	json.Unmarshal(c.Call["args"], &argd)
	xs := make([]tensor.Tensor, len(argd))
	for i, d := range argd {
		if d == nil {
			d = []int{}
		}
		xs[i] = iotaTensor(d, false)
	}
	return xs
}

// judge runs the call under recover with a watchdog and compares with the specified outcome.
func judge(c *c09Case) (verdict string) {
	type result struct {
		o     outcome
		panic any
	}
	ch := make(chan result, 1)
	go func() {
		var r result
		defer func() {
			if p := recover(); p != nil {
				r.panic = p
			}
			ch <- r
		}()
		r.o = exec09(c)
	}()
	var r result
	select {
	case r = <-ch:
	case <-time.After(20 * time.Second):
		return "hang: no return within 20 s"
	}
	if r.panic != nil {
		s := fmt.Sprint(r.panic)
		if len(s) > 8 && s[:8] == "HARNESS:" {
			return s
		}
		return "panic: " + s
	}
	o := r.o
	if o.err != nil && o.hasRes {
		return fmt.Sprintf("error %q together with a result", o.err)
	}
	if o.err == nil && !o.hasRes {
		return "neither an error nor a result"
	}
	if c.Ok && o.err != nil {
		return fmt.Sprintf("rejected although the precondition holds: %v", o.err)
	}
	if !c.Ok && o.err == nil {
		return "accepted although the precondition is violated"
	}
	if o.note != "" {
		return o.note
	}
	if c.Ok && o.dims != nil && fmt.Sprint(o.dims) != fmt.Sprint(c.Dims) {
		return fmt.Sprintf("result has shape %v, specification %v", o.dims, c.Dims)
	}
	return ""
}

// c09Worker is the body of "qv worker c09": one call per job, judged against the specified outcome.
func c09Worker(args []string) int {
	k := 0
	return run.WorkerMain(func(line []byte, r *run.Recorder) {
		var cs c09Case
		if err := json.Unmarshal(line, &cs); err != nil {
			r.Broken(fmt.Sprintf("case does not parse: %v", err))
			return
		}
		v := judge(&cs)
		if len(v) > 8 && v[:8] == "HARNESS:" {
			r.Broken(fmt.Sprintf("%s in %s", v, line))
			return
		}
		if v != "" {
			if v2 := judge(&cs); v2 != "" { // reproducible?
				r.Violate(fmt.Sprintf("%s: %s", line[:min(len(line), 200)], v), map[string]any{"c09": cs, "detail": v})
			}
		}
		r.Count(strings.TrimSpace(string(line)), true)
		k++
		if k%499 == 1 {
			r.Sample(json.RawMessage(append([]byte(nil), line...)))
		}
	})
}

func init() {
	register("C09", "exploration", func(c *run.Ctx) error {
		c.Rule = "TLC enumerates calls of every public entry point (constructors incl. TensorOf with rectangular and ragged nested data of depth 0..4, At, every Tensor method with integer / shape / range arguments, all binary methods with mismatched and nil operands, Concat, BackPropagate, NewFC and Forward of every layer / activation, the three losses, Accuracy, SGD.Update in five states, every initializer's constructor and Init) with arguments from [-2,6], ranks 0..5, nil values (full product up to length 2, one position varied above) and emits the outcome defined by spec/Total.tla: rejected, or accepted with a shape; the harness performs each call under recover with a 20 s watchdog (plus 400 (20000) seeded random HISTORIES of calls that ignore the provisos of C08 - re-back-propagating used graphs, resetting tensors inside live graphs - which only have to return without panicking) and requires: no panic, no hang, an error and no result exactly when rejected, otherwise a readable result of the specified shape; distinct = distinct calls; non-trivial = every call (each is a different argument tuple)"
		c.Assumptions = []string{"the preconditions in spec/TensorOps.tla (Pre), spec/Components.tla (CompPre) and spec/Total.tla are transcribed from the statement and the validators' documented messages", "element values are irrelevant for this property (iota-like data)"}
		parts := 4
		if c.Thorough {
			parts = 8
		}
		files, err := c.Generate("Gen_C09", parts, 30*time.Minute)
		if err != nil {
			return err
		}
		c.Logf("executing the calls on the real library (worker processes, one call at a time each)")
		jobs := make(chan []byte, 64)
		n := 0
		var rerr error
		go func() {
			defer close(jobs)
			rerr = run.ReadLines(files, func(line []byte) error {
				n++
				jobs <- append([]byte(nil), line...)
				return nil
			})
		}()
		describe := func(job []byte) string { return string(job[:min(len(job), 200)]) }
		witness := func(job []byte) any {
			var cs c09Case
			json.Unmarshal(job, &cs)
			return map[string]any{"c09": cs, "detail": "the process died or hung while executing this call"}
		}
		if err := c.Farm([]string{"c09"}, jobs, 2*time.Minute, describe, witness); err != nil {
			return err
		}
		if rerr != nil {
			return rerr
		}
		if n == 0 {
			return run.Brokenf("no calls generated")
		}
		c.AddExtra("calls_generated_by_tlc", n)
		// histories: no sequence of public calls may panic either - including sequences outside the provisos of C08
		// (back-propagating a used graph again, resetting tensors in the middle of a live graph)
		nh := 400
		if c.Thorough {
			nh = 20000
		}
		for i := 0; i < nh; i++ {
			seed := c.Seed*1000033 + int64(i)
			o := drive.Opts{Steps: 50, MaxNodes: 14, Resets: true, MaxBPs: 8, ValueCap: 1e6}
			if p := drive.RunCrashOnly(seed, o); p != "" {
				if p2 := drive.RunCrashOnly(seed, o); p2 != "" {
					c.Violate(fmt.Sprintf("a sequence of public calls panicked (history seed %d): %s", seed, p), map[string]any{"c09_history_seed": seed, "panic": p})
					break
				}
			}
			c.Count(fmt.Sprintf("history-%d", i), true)
		}
		c.AddExtra("proviso_free_histories", nh)
		// "never hangs": deep graphs with exponentially many paths from the root to one leaf, in four stage shapes
		depth := 64
		if c.Thorough {
			depth = 300
		}
		for kind := range ladderKinds {
			if err := ladderCheck(c, depth, kind, true); err != nil {
				return err
			}
		}
		c.AddExtra("ladders", fmt.Sprintf("BackPropagate over %d reconvergent stages returns within 60 s for the stage shapes %v", depth, ladderKinds))
		return nil
	})
	replayers["C09"] = func(path string, w json.RawMessage) int {
		var rec struct {
			C09  c09Case `json:"c09"`
			Seed int64   `json:"c09_history_seed"`
		}
		if err := json.Unmarshal(w, &rec); err != nil {
			return 2
		}
		if rec.Seed != 0 {
			if p := drive.RunCrashOnly(rec.Seed, drive.Opts{Steps: 50, MaxNodes: 14, Resets: true, MaxBPs: 8, ValueCap: 1e6}); p != "" {
				fmt.Printf("VIOLATION property=C09 replay=%s\n  history seed %d panics: %s\n", path, rec.Seed, p)
				return 1
			}
			fmt.Printf("C09: witness %s no longer fails\n", path)
			return 0
		}
		if rec.C09.Call == nil {
			return 2
		}
		if v := judge(&rec.C09); v != "" {
			fmt.Printf("VIOLATION property=C09 replay=%s\n  %s\n", path, v)
			return 1
		}
		fmt.Printf("C09: witness %s no longer fails\n", path)
		return 0
	}
}
