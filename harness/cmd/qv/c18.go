package main

import (
	"encoding/json"
	"fmt"
	"math"
	"time"

	"qeepverif/internal/bind"
	"qeepverif/internal/run"
	"qeepverif/internal/term"

	"github.com/sahandsafizadeh/qeep/component/initializers"
	"github.com/sahandsafizadeh/qeep/component/layers"
	"github.com/sahandsafizadeh/qeep/tensor"
)

type c18Case struct {
	Kind    string  `json:"kind"`
	Nil     bool    `json:"nilconf"`
	A       *term.T `json:"a"`
	B       *term.T `json:"b"`
	Dims    []int   `json:"dims"`
	Tracked bool    `json:"tracked"`
	Dist    string  `json:"dist"`
	P1      *term.T `json:"p1"`
	P2      *term.T `json:"p2"`
	// the initializer OBJECT of this case: built by the first draw, used by all later ones (a layer calls Init on one
	// object for several parameters; what an object remembers from one Init must not show in the next)
	obj layers.Initializer
}

func (c *c18Case) draw() (tensor.Tensor, error) {
	a, b := c.A.Eval(nil, 1).V, c.B.Eval(nil, 1).V
	if c.obj != nil {
		return c.obj.Init(append([]int{}, c.Dims...))
	}
	var in layers.Initializer
	var err error
	switch c.Kind {
	case "randu":
		return tensor.RandU(append([]int{}, c.Dims...), a, b, nil)
	case "randn":
		return tensor.RandN(append([]int{}, c.Dims...), a, b, nil)
	case "full":
		if c.Nil {
			in = initializers.NewFull(nil)
		} else {
			in = initializers.NewFull(&initializers.FullConfig{Value: a})
		}
	case "uniform":
		if c.Nil {
			in, err = initializers.NewUniform(nil)
		} else {
			in, err = initializers.NewUniform(&initializers.UniformConfig{Lower: a, Upper: b})
		}
	case "normal":
		if c.Nil {
			in, err = initializers.NewNormal(nil)
		} else {
			in, err = initializers.NewNormal(&initializers.NormalConfig{Mean: a, StdDev: b})
		}
	case "he-uniform":
		in, err = initializers.NewHeUniform(&initializers.HeUniformConfig{FanIn: int(a)})
	case "he-normal":
		in, err = initializers.NewHeNormal(&initializers.HeNormalConfig{FanIn: int(a)})
	case "xavier-uniform":
		in, err = initializers.NewXavierUniform(&initializers.XavierUniformConfig{FanIn: int(a), FanOut: int(b)})
	case "xavier-normal":
		in, err = initializers.NewXavierNormal(&initializers.XavierNormalConfig{FanIn: int(a), FanOut: int(b)})
	}
	if err != nil {
		return nil, err
	}
	c.obj = in
	return in.Init(append([]int{}, c.Dims...))
}

// check18 draws about n values (several calls) and tests them against the specified distribution.
func check18(c *c18Case, n int) string {
	return run.Guard(func() string { return check18u(c, n) })
}

func check18u(c *c18Case, n int) string {
	p1, p2 := c.P1.Eval(nil, 1).V, c.P2.Eval(nil, 1).V
	per := bind.Prod(c.Dims)
	calls := n/per + 2
	if c.Dist == "const" {
		calls = 3
	}
	var all []float64
	var pos []float64
	var first, second []float64
	var prevT tensor.Tensor
	for k := 0; k < calls; k++ {
		t, err := c.draw()
		if err != nil {
			return fmt.Sprintf("valid configuration rejected: %v", err)
		}
		if prevT != nil && t == prevT {
			return "two calls returned the very same tensor object (every call returns a fresh tensor)"
		}
		prevT = t
		dims, flat, err := bind.Read(t)
		if err != nil {
			return err.Error()
		}
		if fmt.Sprint(dims) != fmt.Sprint(c.Dims) {
			return fmt.Sprintf("shape %v, requested %v", dims, c.Dims)
		}
		ctx := bind.Context(t)
		if ctx.Tracked != c.Tracked || ctx.Spent || ctx.HasGrad || ctx.Edges != 0 {
			return fmt.Sprintf("result is not a %v leaf (tracked=%v spent=%v hasGrad=%v edges=%d)", map[bool]string{true: "tracked", false: "untracked"}[c.Tracked], ctx.Tracked, ctx.Spent, ctx.HasGrad, ctx.Edges)
		}
		for i, v := range flat {
			switch c.Dist {
			case "const":
				if v != p1 {
					return fmt.Sprintf("element %d is %v, configured constant %v", i, v, p1)
				}
			case "uniform":
				if !(v >= p1 && v < p2) {
					return fmt.Sprintf("element %d is %v, outside [%v, %v)", i, v, p1, p2)
				}
			case "normal":
				if math.IsNaN(v) || math.IsInf(v, 0) {
					return fmt.Sprintf("element %d is %v", i, v)
				}
			}
			all = append(all, v)
			pos = append(pos, float64(i))
		}
		if k == 0 {
			first = flat
		} else if k == 1 {
			second = flat
		}
	}
	if c.Dist == "const" {
		return ""
	}
	// positions are independent: within one large tensor (continuous distribution) values do not repeat
	if per >= 4096 {
		seen := make(map[float64]int, per)
		dup := 0
		for _, v := range first {
			seen[v]++
			if seen[v] > 1 {
				dup++
			}
		}
		if dup > per/200 {
			return fmt.Sprintf("%d of the %d elements of one tensor repeat an earlier element of the same tensor: positions are not independent draws", dup, per)
		}
	}
	// fresh draws on every call: two calls share no value at the same position (continuous distributions)
	same := 0
	for i := range first {
		if first[i] == second[i] {
			same++
		}
	}
	if same > 0 && same == len(first) {
		return "two calls returned identical values: draws are not fresh"
	}
	N := float64(len(all))
	var mean float64
	for _, v := range all {
		mean += v
	}
	mean /= N
	var m2 float64
	for _, v := range all {
		m2 += (v - mean) * (v - mean)
	}
	vr := m2 / (N - 1)
	var mu, sd, mu4 float64
	if c.Dist == "uniform" {
		w := p2 - p1
		mu, sd, mu4 = (p1+p2)/2, w/math.Sqrt(12), w*w*w*w/80
	} else {
		mu, sd, mu4 = p1, p2, 3*p2*p2*p2*p2
	}
	const Z = 8
	if math.Abs(mean-mu) > Z*sd/math.Sqrt(N)+1e-12*math.Abs(mu) {
		return fmt.Sprintf("sample mean %v over %d draws, specified %v (8-sigma band %v)", mean, len(all), mu, Z*sd/math.Sqrt(N))
	}
	band := Z * math.Sqrt((mu4-sd*sd*sd*sd)/N)
	if math.Abs(vr-sd*sd) > band {
		return fmt.Sprintf("sample variance %v over %d draws, specified %v (8-sigma band %v)", vr, len(all), sd*sd, band)
	}
	if c.Dist == "uniform" {
		mn, mx := math.Inf(1), math.Inf(-1)
		for _, v := range all {
			mn, mx = math.Min(mn, v), math.Max(mx, v)
		}
		slack := (p2 - p1) * 40 / N
		if mn > p1+slack || mx < p2-slack {
			return fmt.Sprintf("draws cover [%v, %v] only, specified support [%v, %v)", mn, mx, p1, p2)
		}
	} else {
		in1 := 0.0
		for _, v := range all {
			if math.Abs(v-mu) < sd {
				in1++
			}
		}
		p := 0.6826894921370859
		if math.Abs(in1/N-p) > Z*math.Sqrt(p*(1-p)/N) {
			return fmt.Sprintf("%.4f of the draws lie within one sigma, a normal distribution has %.4f", in1/N, p)
		}
	}
	// independence: lag-1..3 autocorrelation and position-vs-value correlation vanish
	for lag := 1; lag <= 3; lag++ {
		var s float64
		for i := 0; i+lag < len(all); i++ {
			s += (all[i] - mean) * (all[i+lag] - mean)
		}
		r := s / m2
		if math.Abs(r) > Z/math.Sqrt(N) {
			return fmt.Sprintf("lag-%d autocorrelation %v over %d draws (band %v)", lag, r, len(all), Z/math.Sqrt(N))
		}
	}
	if per > 1 {
		var pm float64
		for _, p := range pos {
			pm += p
		}
		pm /= N
		var sxy, sxx float64
		for i := range all {
			sxy += (pos[i] - pm) * (all[i] - mean)
			sxx += (pos[i] - pm) * (pos[i] - pm)
		}
		r := sxy / math.Sqrt(sxx*m2)
		if math.Abs(r) > Z/math.Sqrt(N) {
			return fmt.Sprintf("position-vs-value correlation %v over %d draws (band %v)", r, len(all), Z/math.Sqrt(N))
		}
	}
	return ""
}

// interleave18 alternates draws from a (a tensor with an odd number of elements where possible) and b, and tests the
// first and the last element of b's tensors against b's distribution.
func interleave18(a, b *c18Case, rounds int) string {
	return run.Guard(func() string { return interleave18u(a, b, rounds) })
}

func interleave18u(a, b *c18Case, rounds int) string {
	p1, p2 := b.P1.Eval(nil, 1).V, b.P2.Eval(nil, 1).V
	var mu, sd float64
	if b.Dist == "uniform" {
		mu, sd = (p1+p2)/2, (p2-p1)/math.Sqrt(12)
	} else {
		mu, sd = p1, p2
	}
	ac := *a
	ac.Dims = []int{3}
	var first, last []float64
	// independence ACROSS calls: quartile of the last element of a's tensor against quartile of the first element of the
	// tensor b draws right after it (4 x 4 contingency table, 9 degrees of freedom) - any dependence, not only a linear one
	quart := func(cs *c18Case, v float64) int {
		q1, q2 := cs.P1.Eval(nil, 1).V, cs.P2.Eval(nil, 1).V
		var u float64
		if cs.Dist == "uniform" {
			u = (v - q1) / (q2 - q1)
		} else {
			u = 0.5 * (1 + math.Erf((v-q1)/(q2*math.Sqrt2)))
		}
		k := int(math.Floor(4 * u))
		if k < 0 {
			k = 0
		}
		if k > 3 {
			k = 3
		}
		return k
	}
	var table [4][4]float64
	for r := 0; r < rounds; r++ {
		ta, err := ac.draw()
		if err != nil {
			return ""
		}
		_, aflat, err := bind.Read(ta)
		if err != nil || len(aflat) == 0 {
			return ""
		}
		t, err := b.draw()
		if err != nil {
			return ""
		}
		_, flat, err := bind.Read(t)
		if err != nil || len(flat) == 0 {
			return ""
		}
		first = append(first, flat[0])
		last = append(last, flat[len(flat)-1])
		table[quart(&ac, aflat[len(aflat)-1])][quart(b, flat[0])]++
	}
	{
		var row, col [4]float64
		n := 0.0
		for i := range table {
			for j := range table[i] {
				row[i] += table[i][j]
				col[j] += table[i][j]
				n += table[i][j]
			}
		}
		chi2, dof := 0.0, 9.0
		for i := range table {
			for j := range table[i] {
				e := row[i] * col[j] / n
				if e > 0 {
					chi2 += (table[i][j] - e) * (table[i][j] - e) / e
				}
			}
		}
		if chi2 > dof+8*math.Sqrt(2*dof) {
			return fmt.Sprintf("the first element of a tensor depends on the last element of the tensor drawn by the previous call: chi-square %.1f on 9 degrees of freedom over %d pairs of calls (8-sigma bound %.1f); table %v", chi2, rounds, dof+8*math.Sqrt(2*dof), table)
		}
	}
	for name, xs := range map[string][]float64{"first": first, "last": last} {
		N := float64(len(xs))
		var m float64
		for _, v := range xs {
			if b.Dist == "uniform" && !(v >= p1 && v < p2) {
				return fmt.Sprintf("the %s element %v lies outside [%v, %v) when the call follows a differently configured generator", name, v, p1, p2)
			}
			m += v
		}
		m /= N
		var s2 float64
		for _, v := range xs {
			s2 += (v - m) * (v - m)
		}
		s2 /= N - 1
		if math.Abs(m-mu) > 8*sd/math.Sqrt(N) {
			return fmt.Sprintf("mean of the %s element over %d alternated calls is %v, specified %v (8-sigma band %v)", name, len(xs), m, mu, 8*sd/math.Sqrt(N))
		}
		if math.Abs(s2-sd*sd) > 8*sd*sd*math.Sqrt(3/N) {
			return fmt.Sprintf("variance of the %s element over %d alternated calls is %v, specified %v", name, len(xs), s2, sd*sd)
		}
	}
	return ""
}

func init() {
	register("C18", "exploration", func(c *run.Ctx) error {
		c.Rule = "TLC enumerates (initializer or random constructor, configuration incl. nil-config defaults, shape) and emits the result's shape, tracking and the distribution of its elements with parameters as terms (sqrt(6/fanIn), sqrt(6/(fanIn+fanOut)), sqrt(2/fanIn), sqrt(2/(fanIn+fanOut)), configured bounds / mean / sigma); per case the harness makes repeated calls (about N draws in total), checks shape, tracked-leaf-ness and support on every element exactly, and the distributional half statistically with 8-sigma bands: sample mean, sample variance, coverage of the support (uniform), mass within one sigma (normal), freshness across calls, lag-1..3 autocorrelation, position-vs-value correlation; distinct = distinct (kind, configuration, shape)"
		c.Assumptions = []string{"the distributional half of C18 is a statistical statement: it is monitored with 8-sigma acceptance bands (false-alarm probability below 1e-14 per test), not decided exhaustively", "the random source is gonum's distuv over the global locked source; its quality is outside the scope"}
		files, err := c.Generate("Gen_C18", 1, 10*time.Minute)
		if err != nil {
			return err
		}
		n := 60000
		if c.Thorough {
			n = 1000000
		}
		k := 0
		var all18 []*c18Case
		err = run.ReadLines(files, func(line []byte) error {
			var cs c18Case
			if err := json.Unmarshal(line, &cs); err != nil {
				return run.Brokenf("case: %v", err)
			}
			{
				cp := cs
				all18 = append(all18, &cp)
			}
			d := check18(&cs, n)
			if d != "" {
				// a statistical rejection must reproduce with twice the sample before it counts
				if d2 := check18(&cs, 2*n); d2 != "" {
					c.Violate(fmt.Sprintf("%s %v: %s", cs.Kind, cs.Dims, d2), map[string]any{"c18": cs, "detail": d2, "draws": 2 * n})
				} else {
					c.AddExtra("unreproduced_statistical_rejection", d)
				}
			}
			c.Count(string(line), true)
			k++
			if k%31 == 1 {
				c.Sample(json.RawMessage(append([]byte(nil), line...)))
			}
			return nil
		})
		if err != nil {
			return err
		}
		c.AddExtra("draws_per_case", n)
		// calls in any order: alternate two differently configured generators and test the first and the last element
		// of the second one's tensors (state carried from one call into the next would show there)
		rounds := 3000
		if c.Thorough {
			rounds = 40000
		}
		pairs := 0
		for i := 0; i+1 < len(all18); i++ {
			a, b := all18[i], all18[(i+7)%len(all18)]
			if a.Dist == "const" || b.Dist == "const" || (a.Kind == b.Kind && a.P1.Eval(nil, 1).V == b.P1.Eval(nil, 1).V && a.P2.Eval(nil, 1).V == b.P2.Eval(nil, 1).V) {
				continue
			}
			if fmt.Sprint(a.Dims) == "[]" || bind.Prod(b.Dims) > 8 {
				continue
			}
			d := interleave18(a, b, rounds)
			if d != "" {
				if d2 := interleave18(a, b, 2*rounds); d2 != "" {
					c.Violate(fmt.Sprintf("%s %v after %s: %s", b.Kind, b.Dims, a.Kind, d2), map[string]any{"c18_interleave": []*c18Case{a, b}, "detail": d2, "rounds": 2 * rounds})
				}
			}
			pairs++
			c.Count(fmt.Sprintf("interleave-%d", i), true)
		}
		c.AddExtra("interleaved_pairs", fmt.Sprintf("%d ordered pairs of differently configured generators alternated %d times", pairs, rounds))
		return nil
	})
	replayers["C18"] = func(path string, w json.RawMessage) int {
		var rec struct {
			C18   c18Case `json:"c18"`
			Draws int     `json:"draws"`
		}
		if err := json.Unmarshal(w, &rec); err != nil || rec.C18.Kind == "" {
			return 2
		}
		if d := check18(&rec.C18, rec.Draws); d != "" {
			fmt.Printf("VIOLATION property=C18 replay=%s\n  %s\n", path, d)
			return 1
		}
		fmt.Printf("C18: witness %s no longer fails\n", path)
		return 0
	}
}
