------------------------------ MODULE Gen_C05 ------------------------------
(***************************************************************************)
(* C05: reductions.  Whole-tensor Sum / Max / Min / Avg / Mean / Var / Std *)
(* for every shape of the grid, and the Along(dim) forms for every dim of  *)
(* every shape of rank >= 1.  The definitions are fibre-wise: the running  *)
(* sum, the n-ary max / min, sum / n, sum (x - mean)^2 / (n - 1) (0 for a  *)
(* single element) and its square root; the result shape is the operand's  *)
(* without dim.  Invalid dims are emitted as cases that must be rejected.  *)
(***************************************************************************)
EXTENDS Emit

(* sizes beyond the small grid: loops unrolled or special-cased for a size show only here *)
Big == {<<5>>, <<7>>, <<4, 5>>, <<5, 1>>, <<1, 6>>, <<2, 4, 3>>, <<4, 1, 2, 5>>}
(* thresholds: work is sometimes split or blocked once a dimension or an element count passes 8, 16, 64, 512 *)
Large == {<<17>>, <<18, 2>>, <<2, 19>>, <<33>>, <<9, 2>>, <<3, 11>>}
Grid == Large \cup {<<13>>, <<2, 9, 2>>, <<19, 1>>} \cup (IF Thorough THEN Shapes(4, 3) \cup Shapes(6, 2)
         ELSE Shapes(3, 2) \cup Shapes(2, 3) \cup {<<1, 3, 1, 2>>, <<2, 1, 1, 2, 3>>, <<2, 1, 2, 1, 1, 2>>}) \cup Big
GridSeq == SetToSeq(Grid)
WholeOps == <<"sum", "max", "min", "avg", "mean", "var", "std">>
AOps == <<"sumalong", "maxalong", "minalong", "avgalong", "varalong", "stdalong", "meanalong">>

WholeDescs == [i \in DOMAIN GridSeq |-> <<"w", GridSeq[i], 0, "">>]
AlongDescs == Flatten2([i \in DOMAIN GridSeq |-> Flatten2([d \in 1..Len(GridSeq[i]) |->
                 [f \in DOMAIN AOps |-> <<"a", GridSeq[i], d - 1, AOps[f]>>]])])
BadDescs == Flatten2([i \in DOMAIN GridSeq |->
               IF Len(GridSeq[i]) > 3 THEN <<>>
               ELSE LET op == AOps[((i + Seed) % 7) + 1]
                    IN << <<"a", GridSeq[i], -1, op>>, <<"a", GridSeq[i], Len(GridSeq[i]), op>>, <<"a", GridSeq[i], Len(GridSeq[i]) + 2, op>> >>])

Descs == MyCases(WholeDescs \o AlongDescs \o BadDescs)

(* hugemix: magnitudes near 1.5e308 whose signs alternate along every dimension (every fibre and the row-major order have *)
(* bounded partial sums although two neighbours of equal sign would overflow); offset160: a common offset of 1e160 with a *)
(* relative spread of 1e-9 (deviations near 1e151: their squares are finite, the squares of the values are not)           *)
D == "any,ties,zero,wide,offset,noffset,any,hugemix,offset160"
Build(d) ==
  CASE d[1] = "w" ->
         LET a == SymT("a", d[2])
         IN [fam |-> "c05", name |-> "whole", ok |-> TRUE, ties |-> TRUE, code |-> <<>>,
             inputs |-> <<EncIn(In("a", d[2], FALSE), D)>>,
             scal |-> [f \in DOMAIN WholeOps |-> [op |-> WholeOps[f], node |-> 1, val |-> Enc(Reduce(WholeOps[f], a))]]]
    [] d[1] = "a" ->
         MkCase("c05", d[4], <<In("a", d[2], FALSE)>>, <<D>>, <<Ins(d[4], [dim |-> d[3]], <<1>>)>>, <<2>>, 0, TRUE)

Cases == [i \in DOMAIN Descs |-> Build(Descs[i])]
ASSUME Write(Cases)
ASSUME PrintT(<<"generated", Len(Cases)>>)
=============================================================================
