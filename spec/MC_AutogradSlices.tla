--------------------------- MODULE MC_AutogradSlices ---------------------------
(***************************************************************************)
(* The autograd machine over the operations that take caller-owned slices  *)
(* (Slice and Patch index ranges, Reshape / Broadcast shapes, the Concat   *)
(* tensor list, nested constructor data) with the environment action       *)
(* Scribble enabled between any two calls, in particular between building  *)
(* a graph and back-propagating it.  This is the configuration behind C10. *)
(***************************************************************************)
EXTENDS Autograd

MC_LeafVals == {LitT(<<2, 2>>, <<1, -2, 0, 3>>)}
MC_UnOps == {<<"slice", [index |-> <<<<0, 1>>>>]>>, <<"slice", [index |-> <<<<0, 0>>, <<1, 2>>>>]>>,
             <<"reshape", [shape |-> <<4>>]>>, <<"reshape", [shape |-> <<2, 2>>]>>, <<"slice", [index |-> <<>>]>>, <<"scale", [k |-> One]>>, <<"broadcast", [shape |-> <<2, 2>>]>>, <<"broadcast", [shape |-> <<2, 1, 2>>]>>}
MC_CtorShapes == {<<"full", <<1, 2>>>>}       \* Full / Zeros / Ones take a caller-owned dimension list (they share one code path)
MC_BinOps == {<<"patch", [index |-> <<<<1, 2>>>>]>>, <<"concat", [dim |-> 0]>>}
Bounded == TRUE
=============================================================================
