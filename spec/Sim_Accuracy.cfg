SPECIFICATION Spec
CONSTANTS
  Labels = {0, 1, 2, 3}
  MaxBatch = 5
  MaxSeen = 400
  MaxBad = 40
INVARIANTS MatchedOverTotal Bounds
ACTION_CONSTRAINT Dump
CHECK_DEADLOCK FALSE
