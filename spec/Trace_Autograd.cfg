SPECIFICATION TraceSpec
CONSTANTS
  MaxNodes = 1000
  MaxBP = 1000
  AllowReset = TRUE
  AllowScribble = FALSE
  Dev = {}
  Recorded = {}
  LeafVals = {}
  UnOps = {}
  BinOps = {}
  CtorShapes = {}
CONSTRAINT HighWater
POSTCONDITION TraceAccepted
INVARIANTS C08_Shape C08_Frame C08_Retire C01_TotalSmall
PROPERTIES C10_ValuesFrozen
CHECK_DEADLOCK FALSE
