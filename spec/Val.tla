-------------------------------- MODULE Val --------------------------------
(***************************************************************************)
(* The value domain of the qeep specification.                            *)
(*                                                                         *)
(* TLC has 32-bit integers and no reals, so the specification never        *)
(* computes in floating point.  A scalar value is a TERM:                  *)
(*                                                                         *)
(*   [k |-> "q", n, d]     a normalised rational literal n/d, d > 0        *)
(*   [k |-> "s", t, i]     the symbol "element i (1-based, row-major) of   *)
(*                         input tensor t"                                 *)
(*   [k |-> "c", c]        a named real constant the harness knows         *)
(*                         ("epsLo" = 1e-12, "epsHi" = 1 - 1e-12)          *)
(*   [k |-> "a", f, a]     application of the scalar function f to the     *)
(*                         sequence of terms a                             *)
(*                                                                         *)
(* The constructors below fold literals exactly, so with literal inputs    *)
(* every rational operation of the library evaluates to a literal and the  *)
(* model-checking configurations compare exact numbers; with symbolic      *)
(* inputs they build the formula of the result, which the Go harness       *)
(* evaluates in float64 for many assignments of the symbols.               *)
(*                                                                         *)
(* Diff is symbolic differentiation (sum, product, quotient, chain rule    *)
(* and a table for the transcendental functions); it is the ONLY source of *)
(* derivatives in the whole specification: no backward rule of the library *)
(* is transcribed anywhere.                                                *)
(***************************************************************************)
EXTENDS Integers, Sequences, FiniteSets

RECURSIVE Gcd(_, _)
Gcd(a, b) == IF b = 0 THEN a ELSE Gcd(b, a % b)
Abs(x) == IF x < 0 THEN -x ELSE x

Q(n, d) == LET g == Gcd(Abs(n), Abs(d))
               s == IF d < 0 THEN -1 ELSE 1
           IN [k |-> "q", n |-> (s * n) \div g, d |-> (s * d) \div g]
QI(n) == [k |-> "q", n |-> n, d |-> 1]
IsQ(v) == v.k = "q"
Zero == QI(0)
One == QI(1)
Two == QI(2)
MinusOne == QI(-1)
Half == Q(1, 2)

Sym(t, i) == [k |-> "s", t |-> t, i |-> i]
Cst(c) == [k |-> "c", c |-> c]
App(f, a) == [k |-> "a", f |-> f, a |-> a]
IsCst(v, c) == v.k = "c" /\ v.c = c

QLt(x, y) == x.n * y.d < y.n * x.d
QLe(x, y) == x.n * y.d <= y.n * x.d
QIsInt(x) == x.d = 1

(* ------------------------- folding constructors ------------------------- *)

Add(x, y) == IF IsQ(x) /\ IsQ(y) THEN Q(x.n * y.d + y.n * x.d, x.d * y.d)
             ELSE IF x = Zero THEN y
             ELSE IF y = Zero THEN x
             ELSE App("add", <<x, y>>)

Neg(x) == IF IsQ(x) THEN Q(-x.n, x.d)
          ELSE IF x.k = "a" /\ x.f = "neg" THEN x.a[1]
          ELSE App("neg", <<x>>)

Sub(x, y) == IF IsQ(x) /\ IsQ(y) THEN Q(x.n * y.d - y.n * x.d, x.d * y.d)
             ELSE IF y = Zero THEN x
             ELSE IF x = Zero THEN Neg(y)
             ELSE App("sub", <<x, y>>)

Mul(x, y) == IF IsQ(x) /\ IsQ(y) THEN Q(x.n * y.n, x.d * y.d)
             ELSE IF x = Zero \/ y = Zero THEN Zero
             ELSE IF x = One THEN y
             ELSE IF y = One THEN x
             ELSE App("mul", <<x, y>>)

Div(x, y) == IF IsQ(x) /\ IsQ(y) /\ y.n # 0 THEN Q(x.n * y.d, x.d * y.n)
             ELSE IF y = One THEN x
             ELSE App("div", <<x, y>>)

Inv(x) == Div(One, x)

RECURSIVE IPow(_, _)
IPow(b, e) == IF e = 0 THEN 1 ELSE b * IPow(b, e - 1)

(* x to the power of the rational LITERAL a (the exponent is always a      *)
(* parameter of the call, never data).  math.Pow(x, 0) = 1 for every x.    *)
Pow(x, a) == IF a = Zero THEN One
             ELSE IF a = One THEN x
             ELSE IF IsQ(x) /\ QIsInt(a) /\ a.n > 0 THEN Q(IPow(x.n, a.n), IPow(x.d, a.n))
             ELSE IF IsQ(x) /\ QIsInt(a) /\ a.n < 0 /\ x.n # 0 THEN Q(IPow(x.d, -a.n), IPow(x.n, -a.n))
             ELSE App("pow", <<x, a>>)

Fn(f, x) == App(f, <<x>>)

(* Order of two terms when it is known: literals, and a literal against one *)
(* of the clipping bounds of the losses (a rational with a 32-bit           *)
(* denominator that is > 0 is > 1e-12, one that is < 1 is < 1 - 1e-12).     *)
Ord(x, y) ==
  IF IsQ(x) /\ IsQ(y) THEN (IF QLt(x, y) THEN "lt" ELSE IF QLt(y, x) THEN "gt" ELSE "eq")
  ELSE IF IsQ(x) /\ IsCst(y, "epsLo") THEN (IF x.n > 0 THEN "gt" ELSE "lt")
  ELSE IF IsCst(x, "epsLo") /\ IsQ(y) THEN (IF y.n > 0 THEN "lt" ELSE "gt")
  ELSE IF IsQ(x) /\ IsCst(y, "epsHi") THEN (IF x.n < x.d THEN "lt" ELSE "gt")
  ELSE IF IsCst(x, "epsHi") /\ IsQ(y) THEN (IF y.n < y.d THEN "gt" ELSE "lt")
  ELSE IF IsCst(x, "epsLo") /\ IsCst(y, "epsHi") THEN "lt"
  ELSE IF IsCst(x, "epsHi") /\ IsCst(y, "epsLo") THEN "gt"
  ELSE IF x = y THEN "eq"
  ELSE "unknown"

MaxV(x, y) == LET o == Ord(x, y) IN IF o = "lt" THEN y ELSE IF o \in {"gt", "eq"} THEN x ELSE App("max", <<x, y>>)
MinV(x, y) == LET o == Ord(x, y) IN IF o = "gt" THEN y ELSE IF o \in {"lt", "eq"} THEN x ELSE App("min", <<x, y>>)

B2Q(b) == IF b THEN One ELSE Zero

(* comparisons yield exactly 0 or 1 *)
Cmp(f, x, y) ==
  IF IsQ(x) /\ IsQ(y)
  THEN CASE f = "eq" -> B2Q(x = y)
         [] f = "ne" -> B2Q(x # y)
         [] f = "gt" -> B2Q(QLt(y, x))
         [] f = "ge" -> B2Q(QLe(y, x))
         [] f = "lt" -> B2Q(QLt(x, y))
         [] f = "le" -> B2Q(QLe(x, y))
  ELSE App(f, <<x, y>>)

CmpOps == {"eq", "ne", "gt", "ge", "lt", "le"}

RECURSIVE SumV(_)
SumV(s) == IF s = <<>> THEN Zero ELSE Add(Head(s), SumV(Tail(s)))

(* left fold in index order, as a running sum s := s + x[i] starting from 0 *)
RECURSIVE SumL(_, _)
SumL(acc, s) == IF s = <<>> THEN acc ELSE SumL(Add(acc, Head(s)), Tail(s))

RECURSIVE MaxL(_)
MaxL(s) == IF Len(s) = 1 THEN s[1] ELSE MaxV(MaxL(SubSeq(s, 1, Len(s) - 1)), s[Len(s)])
RECURSIVE MinL(_)
MinL(s) == IF Len(s) = 1 THEN s[1] ELSE MinV(MinL(SubSeq(s, 1, Len(s) - 1)), s[Len(s)])

(* ----------------------------- differentiation --------------------------- *)

(* one-sided derivative selector of max / min: the derivative of           *)
(* max(a, b) is da where a > b, db where b > a, and at a tie the one of    *)
(* the argument that becomes larger when the differentiation variable      *)
(* moves in the direction the harness evaluates (both directions are       *)
(* evaluated; every value between the two is accepted).                    *)
DSel(f, a, b, da, db) ==
  IF da = db THEN da
  ELSE LET o == Ord(a, b)
       IN IF o = "gt" THEN (IF f = "dmax" THEN da ELSE db)
          ELSE IF o = "lt" THEN (IF f = "dmax" THEN db ELSE da)
          ELSE App(f, <<a, b, da, db>>)

(* d f(u) / du for the unary scalar functions *)
DFn(f, u) == CASE f = "exp" -> Fn("exp", u)
               [] f = "log" -> Inv(u)
               [] f = "sin" -> Fn("cos", u)
               [] f = "cos" -> Neg(Fn("sin", u))
               [] f = "tan" -> Inv(Mul(Fn("cos", u), Fn("cos", u)))
               [] f = "sinh" -> Fn("cosh", u)
               [] f = "cosh" -> Fn("sinh", u)
               [] f = "tanh" -> Inv(Mul(Fn("cosh", u), Fn("cosh", u)))   \* = 1 - tanh^2, in the form that keeps its relative accuracy where tanh saturates
               [] f = "sqrt" -> Inv(Mul(Two, Fn("sqrt", u)))

RECURSIVE Diff(_, _)
Diff(v, s) ==
  CASE v.k = "q" -> Zero
    [] v.k = "c" -> Zero
    [] v.k = "s" -> IF v = s THEN One ELSE Zero
    [] v.k = "a" ->
       CASE v.f = "add" -> Add(Diff(v.a[1], s), Diff(v.a[2], s))
         [] v.f = "sub" -> Sub(Diff(v.a[1], s), Diff(v.a[2], s))
         [] v.f = "neg" -> Neg(Diff(v.a[1], s))
         [] v.f = "mul" -> Add(Mul(Diff(v.a[1], s), v.a[2]), Mul(v.a[1], Diff(v.a[2], s)))
         [] v.f = "div" -> LET du == Diff(v.a[1], s)
                               dv == Diff(v.a[2], s)
                           IN Sub(Div(du, v.a[2]),
                                  Mul(Div(v.a[1], Mul(v.a[2], v.a[2])), dv))
         [] v.f = "pow" -> LET du == Diff(v.a[1], s)
                           IN IF du = Zero THEN Zero
                              ELSE Mul(Mul(v.a[2], Pow(v.a[1], Sub(v.a[2], One))), du)
         [] v.f = "max" -> DSel("dmax", v.a[1], v.a[2], Diff(v.a[1], s), Diff(v.a[2], s))
         [] v.f = "min" -> DSel("dmin", v.a[1], v.a[2], Diff(v.a[1], s), Diff(v.a[2], s))
         [] v.f \in CmpOps -> Zero
         [] OTHER -> LET du == Diff(v.a[1], s)
                     IN IF du = Zero THEN Zero ELSE Mul(DFn(v.f, v.a[1]), du)

(* ------------------------------ substitution ----------------------------- *)

(* env: a function from <<tensor name, element>> to terms *)
RECURSIVE Subst(_, _)
Subst(v, env) ==
  CASE v.k = "q" -> v
    [] v.k = "c" -> v
    [] v.k = "s" -> IF <<v.t, v.i>> \in DOMAIN env THEN env[<<v.t, v.i>>] ELSE v
    [] v.k = "a" ->
       CASE v.f = "add" -> Add(Subst(v.a[1], env), Subst(v.a[2], env))
         [] v.f = "sub" -> Sub(Subst(v.a[1], env), Subst(v.a[2], env))
         [] v.f = "neg" -> Neg(Subst(v.a[1], env))
         [] v.f = "mul" -> Mul(Subst(v.a[1], env), Subst(v.a[2], env))
         [] v.f = "div" -> Div(Subst(v.a[1], env), Subst(v.a[2], env))
         [] v.f = "pow" -> Pow(Subst(v.a[1], env), v.a[2])
         [] v.f = "max" -> MaxV(Subst(v.a[1], env), Subst(v.a[2], env))
         [] v.f = "min" -> MinV(Subst(v.a[1], env), Subst(v.a[2], env))
         [] v.f \in CmpOps -> Cmp(v.f, Subst(v.a[1], env), Subst(v.a[2], env))
         [] v.f \in {"dmax", "dmin"} ->
              DSel(v.f, Subst(v.a[1], env), Subst(v.a[2], env), Subst(v.a[3], env), Subst(v.a[4], env))
         [] OTHER -> Fn(v.f, Subst(v.a[1], env))

(* the tensor names / elements a term mentions *)
RECURSIVE SymsOf(_)
SymsOf(v) == CASE v.k = "s" -> {<<v.t, v.i>>}
               [] v.k = "a" -> UNION {SymsOf(v.a[i]) : i \in DOMAIN v.a}
               [] OTHER -> {}

(* is the term free of symbols, constants and applications, i.e. a literal *)
AllLiteral(seq) == \A i \in DOMAIN seq : IsQ(seq[i])

=============================================================================
