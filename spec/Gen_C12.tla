------------------------------ MODULE Gen_C12 ------------------------------
(***************************************************************************)
(* C12: loss values.  MSE / BCE for every batch size, CE for every batch   *)
(* size x class count of the grid; predictions tracked and untracked (the  *)
(* expected terms are the same: the value does not depend on tracking).    *)
(* Expected: Components!MSE / BCE / CE, i.e. the statement's formulas with *)
(* clip(x, l, u) = max(l, min(x, u)); the harness draws predictions and    *)
(* targets from 0, 1, < 0, > 1, +-1e6 and within 1e-12 of the clipping     *)
(* bounds on both sides, and also requires finite and >= 0.                *)
(***************************************************************************)
EXTENDS Emit

Ns == (IF Thorough THEN 1..5 ELSE 1..3) \cup {4, 7, 8, 17}
Cs == IF Thorough THEN 1..4 ELSE 1..3
Descs0 == SetToSeq(({"mse", "bce"} \X Ns \X {0} \X BOOLEAN) \cup ({"ce"} \X Ns \X Cs \X BOOLEAN))
Bad == << <<"mse", <<2>>, <<3>>>>, <<"bce", <<2>>, <<3>>>>, <<"ce", <<2, 2>>, <<2, 3>>>>, <<"ce", <<2, 2>>, <<3, 2>>>>,
          <<"mse", <<>>, <<>>>>, <<"bce", <<2, 1>>, <<2, 1>>>>, <<"ce", <<2>>, <<2>>>>, <<"mse", <<2>>, <<2, 1>>>>, <<"ce", <<2, 2, 1>>, <<2, 2, 1>>>> >>
(* the same loss object used for batches of different sizes in turn *)
Reuse == << <<"reuse", "mse", <<3>>, <<1>>>>, <<"reuse", "bce", <<2>>, <<4>>>>, <<"reuse", "ce", <<2, 3>>, <<3, 2>>>>, <<"reuse", "ce", <<1, 2>>, <<2, 2>>>> >>
(* the SAME tensor object as prediction and as target; and two tensors used in both orders by one loss object *)
Same == << <<"same", "mse", <<3>>>>, <<"same", "bce", <<4>>>>, <<"same", "ce", <<2, 3>>>>, <<"same", "bce", <<1>>>>, <<"same", "ce", <<3, 1>>>>,
           <<"swap", "bce", <<3>>>>, <<"swap", "ce", <<2, 2>>>>, <<"swap", "mse", <<2>>>> >>
(* forty batches of forty different sizes through one process, then the first sizes again (whatever the losses keep per *)
(* shape - bounds, buffers - must still fit when a shape comes back after many others)                                  *)
Many == << <<"many", "bce", 40>>, <<"many", "ce", 36>> >>
Descs == MyCases(Descs0 \o [i \in DOMAIN Bad |-> <<"bad", Bad[i]>>] \o Reuse \o Same \o Many)

Build(d) ==
  IF d[1] = "reuse"
  THEN MkCase("c12", d[2] \o "-reused", <<In("p", d[3], TRUE), In("t", d[3], FALSE), In("q", d[4], FALSE), In("u", d[4], FALSE)>>,
              <<"prob,unit", "prob,targ01", "prob,unit", "prob,targ01">>,
              <<Ins(d[2], [inst |-> 1, dim |-> 0], <<1, 2>>), Ins(d[2], [inst |-> 1, dim |-> 0], <<3, 4>>), Ins(d[2], [inst |-> 1, dim |-> 0], <<1, 2>>)>>,
              <<5, 6, 7>>, 0, TRUE) @@ [props |-> <<"nonneg", "finite">>]
       (* between the batch of one size and the batch of the other the same object REJECTS a call whose prediction already has the new size *)
       @@ (LET ins3 == <<In("p", d[3], TRUE), In("t", d[3], FALSE), In("q", d[4], FALSE), In("u", d[4], FALSE)>>
               code3 == <<Ins(d[2], [inst |-> 1, dim |-> 0], <<1, 2>>), Ins(d[2], [inst |-> 1, dim |-> 0], <<3, 4>>), Ins(d[2], [inst |-> 1, dim |-> 0], <<1, 2>>)>>
           IN [rejects |-> <<Rejected(ins3, code3, 2, Ins(d[2], [inst |-> 1, dim |-> 0], <<3, 2>>)), Rejected(ins3, code3, 3, Ins(d[2], [inst |-> 1, dim |-> 0], <<1, 4>>))>>])
  ELSE IF d[1] = "same"
  THEN MkCase("c12", d[2] \o "-same-object", <<In("p", d[3], FALSE)>>, <<"prob,unit,prob">>, <<Ins(d[2], NoPar, <<1, 1>>)>>, <<2>>, 0, TRUE)
       @@ [props |-> <<"nonneg", "finite">>]
  ELSE IF d[1] = "swap"
  THEN MkCase("c12", d[2] \o "-swapped", <<In("p", d[3], FALSE), In("t", d[3], FALSE)>>, <<"prob,unit,prob", "prob,targ01,prob">>,
              <<Ins(d[2], [inst |-> 1, dim |-> 0], <<1, 2>>), Ins(d[2], [inst |-> 1, dim |-> 0], <<2, 1>>), Ins(d[2], NoPar, <<1, 2>>)>>, <<3, 4, 5>>, 0, TRUE)
       @@ [props |-> <<"nonneg", "finite">>]
  ELSE IF d[1] = "many"
  THEN LET n == d[3]
           dimsOf(k) == IF d[2] = "ce" THEN <<k, 2>> ELSE <<k>>
           ins == [j \in 1..(2 * n) |-> IF j <= n THEN In("p" \o ToString(j), dimsOf(j), FALSE) ELSE In("t" \o ToString(j - n), dimsOf(j - n), FALSE)]
           code == [j \in 1..(n + 3) |-> LET k == IF j <= n THEN j ELSE j - n IN Ins(d[2], NoPar, <<k, n + k>>)]
       IN MkCase("c12", d[2] \o "-many-shapes", ins, [j \in 1..(2 * n) |-> IF j <= n THEN "unit" ELSE "targ01"], code,
                 [j \in 1..(n + 3) |-> 2 * n + j], 0, TRUE) @@ [props |-> <<"nonneg", "finite">>]
  ELSE IF d[1] = "bad"
  THEN MkCase("c12", d[2][1], <<In("p", d[2][2], FALSE), In("t", d[2][3], FALSE)>>, <<"any", "any">>,
              <<Ins(d[2][1], NoPar, <<1, 2>>)>>, <<>>, 0, TRUE)
  ELSE LET dims == IF d[1] = "ce" THEN <<d[2], d[3]>> ELSE <<d[2]>>
       IN MkCase("c12", d[1], <<In("p", dims, d[4]), In("t", dims, FALSE)>>, <<"prob,unit,prob,unit,mil,distrows", "prob,targ01,prob,tcancel,milcopy,unit">>,      \* distrows: every row is EXACTLY a probability distribution (sums to 1.0 in any order), with entries far below the clipping bound      \* mil / milcopy: magnitudes near 1e6 that differ by about 1e-3 (a loss formed from p.p - 2 p.t + t.t cancels)        \* tcancel: out-of-range and soft targets whose t(1-t) cancel exactly
                 <<Ins(d[1], NoPar, <<1, 2>>)>>, <<3>>, 0, TRUE) @@ [props |-> <<"nonneg", "finite">>]

Cases == [i \in DOMAIN Descs |-> Build(Descs[i])]
ASSUME Write(Cases)
ASSUME PrintT(<<"generated", Len(Cases)>>)
=============================================================================
