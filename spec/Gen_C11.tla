------------------------------ MODULE Gen_C11 ------------------------------
(***************************************************************************)
(* C11: the symbolic one-step map of every model FC -> activation -> loss  *)
(* that type-checks: the gradient of the mini-batch loss with respect to W *)
(* and B as terms over the weight and data symbols (Prog!GradDef, i.e. the *)
(* derivative of the composed DEFINITIONS), plus the same under the        *)
(* recorded deviation D2.  The harness runs K real training steps          *)
(* (Forward, loss, BackPropagate, SGD.Update on both parameters,           *)
(* ResetGradContext(true)) from many initialisations and data sets and     *)
(* after EVERY step checks  w_{k+1} = w_k - lr * g(w_k)  with g evaluated  *)
(* at the real current weights, so anything leaking from step k into step  *)
(* k+1 shows up as a mismatch at step k+1.                                 *)
(***************************************************************************)
EXTENDS Emit

R == IF Thorough THEN 1..3 ELSE 1..2
Acts == <<"relu", "leakyrelu", "sigmoid", "tanhact">>
(* out = 1 + Squeeze for MSE / BCE; Softmax / Sigmoid outputs for CE *)
Models == Flatten2([b \in 1..Cardinality(R) |-> Flatten2([f \in 1..Cardinality(R) |->
            [a \in DOMAIN Acts |-> <<"mse", Acts[a], b, f, 1>>]
            \o << <<"bce", "sigmoid", b, f, 1>> >>
            \o Flatten2([o \in 1..Cardinality(R) |-> << <<"ce", "softmax", b, f, o>>, <<"ce", "sigmoid", b, f, o>> >>])])])
(* two stacked layers: FC(feat -> hidden) -> activation -> FC(hidden -> out) -> activation -> loss *)
Deep == << <<"deep", "mse", "tanhact", "sigmoid", 2, 2, 2, 1>>, <<"deep", "bce", "relu", "sigmoid", 3, 1, 2, 1>>, <<"deep", "ce", "leakyrelu", "softmax", 2, 2, 3, 2>>,
           <<"deep", "mse", "sigmoid", "relu", 1, 3, 1, 1>>, <<"deep", "ce", "tanhact", "sigmoid", 3, 2, 2, 3>> >>
(* batch sizes and widths past the thresholds at which reductions are typically blocked *)
BigModels == << <<"mse", "sigmoid", 9, 3, 1>>, <<"bce", "sigmoid", 11, 2, 1>>, <<"ce", "softmax", 17, 1, 2>>, <<"mse", "relu", 18, 2, 1>>, <<"mse", "tanhact", 2, 9, 1>> >>
Descs == MyCases(Models \o Deep \o BigModels)

ActPar(act) == CASE act = "leakyrelu" -> [k |-> Q(1, 10), nilconf |-> FALSE]
                  [] act = "softmax" -> [dim |-> 1, nilconf |-> FALSE]
                  [] OTHER -> NoPar
BuildDeep(d) ==
  LET loss == d[2] a1 == d[3] a2 == d[4] batch == d[5] feat == d[6] hid == d[7] out == d[8]
      tdims == IF loss = "ce" THEN <<batch, out>> ELSE <<batch>>
      inputs == <<In("w", <<hid>>, TRUE), In("b", <<hid>>, TRUE), In("v", <<out>>, TRUE), In("c", <<out>>, TRUE),
                  In("x", <<batch, feat>>, FALSE), In("t", tdims, FALSE)>>
      head == <<Ins("fc", NoPar, <<1, 2, 5>>), Ins(a1, ActPar(a1), <<7>>), Ins("fc", NoPar, <<3, 4, 8>>), Ins(a2, ActPar(a2), <<9>>)>>
      code == IF loss = "ce" THEN head \o <<Ins("ce", NoPar, <<10, 6>>)>>
              ELSE head \o <<Ins("squeeze", [dim |-> 1], <<10>>), Ins(loss, NoPar, <<11, 6>>)>>
      root == Len(inputs) + Len(code)
  IN MkCaseD("c11", "deep/" \o loss \o "/" \o a1 \o "/" \o a2, inputs, <<"small", "small", "small", "small", "small", IF loss = "mse" THEN "any" ELSE "targ01">>,
             code, <<root>>, root, a1 \in {"relu", "leakyrelu"} \/ a2 \in {"relu", "leakyrelu"})

Build(d) ==
  IF d[1] = "deep" THEN BuildDeep(d) ELSE
  LET loss == d[1] act == d[2] batch == d[3] feat == d[4] out == d[5]
      par == CASE act = "leakyrelu" -> [k |-> IF (batch + feat) % 2 = 0 THEN Q(1, 10) ELSE QI(3), nilconf |-> FALSE]     \* slopes below and above 1
               [] act = "softmax" -> [dim |-> 1, nilconf |-> FALSE]
               [] OTHER -> NoPar
      tdims == IF loss = "ce" THEN <<batch, out>> ELSE <<batch>>
      inputs == <<In("w", <<out>>, TRUE), In("b", <<out>>, TRUE), In("x", <<batch, feat>>, FALSE), In("t", tdims, FALSE)>>
      code == IF loss = "ce"
              THEN <<Ins("fc", NoPar, <<1, 2, 3>>), Ins(act, par, <<5>>), Ins("ce", NoPar, <<6, 4>>)>>
              ELSE <<Ins("fc", NoPar, <<1, 2, 3>>), Ins(act, par, <<5>>), Ins("squeeze", [dim |-> 1], <<6>>), Ins(loss, NoPar, <<7, 4>>)>>
      root == Len(inputs) + Len(code)
      (* softmax models also start from weights near 250 on inputs of +-1: the logits of two samples of one mini-batch *)
      (* are then hundreds apart, while every probability and the gradient stay ordinary numbers                     *)
      far == act = "softmax"
  IN MkCaseD("c11", loss \o "/" \o act, inputs, <<IF far THEN "small,w250" ELSE "small", "small", IF far THEN "small,pm1" ELSE "small", IF loss = "mse" THEN "any" ELSE "targ01">>,
             code, <<root>>, root, act \in {"relu", "leakyrelu"})

Cases == [i \in DOMAIN Descs |-> Build(Descs[i])]
ASSUME Write(Cases)
ASSUME PrintT(<<"generated", Len(Cases)>>)
=============================================================================
