------------------------------ MODULE Gen_C19 ------------------------------
(***************************************************************************)
(* C19 for batch sizes the exhaustive model cannot reach: every (size n,   *)
(* number of matches k) with n up to 64 (96), as a one-call history and as *)
(* the second call after a first batch, plus the same items re-split into  *)
(* two calls.  The expected counters come from Accuracy's own definition   *)
(* (Matches of the two label sequences), not from n and k.                 *)
(***************************************************************************)
EXTENDS Integers, Sequences, FiniteSets, TLC, Json, IOUtils, SequencesExt

EnvOr(name, default) == IF name \in DOMAIN IOEnv THEN IOEnv[name] ELSE default
MaxN == IF EnvOr("QV_TIER", "quick") = "thorough" THEN 96 ELSE 64
Matches(p, t) == Cardinality({i \in DOMAIN p : p[i] = t[i]})

(* a batch of n items of which exactly the first k match (the harness permutes positions) *)
Pred(n, k) == [i \in 1..n |-> (i % 3)]
Targ(n, k) == [i \in 1..n |-> IF i <= k THEN (i % 3) ELSE ((i % 3) + 1) % 3]

NK == SetToSeq({<<n, k>> : n \in 1..MaxN, k \in 0..MaxN} \ {<<n, k>> \in (1..MaxN) \X (0..MaxN) : k > n})
Cases == [i \in DOMAIN NK |->
            LET n == NK[i][1] k == NK[i][2]
                p == Pred(n, k) t == Targ(n, k)
                p0 == Pred(5, 2) t0 == Targ(5, 2)
            IN [n |-> n, k |-> k, p |-> p, t |-> t,
                total |-> Len(p), correct |-> Matches(p, t),
                total2 |-> Len(p0 \o p), correct2 |-> Matches(p0 \o p, t0 \o t)]]
ASSUME ndJsonSerialize(EnvOr("QV_OUT", "c19.ndjson"), Cases)
ASSUME PrintT(<<"generated", Len(Cases)>>)
=============================================================================
