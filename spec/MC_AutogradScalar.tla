-------------------------- MODULE MC_AutogradScalar --------------------------
(***************************************************************************)
(* Exhaustive model of the autograd machine over rank-0 tensors: every DAG *)
(* with at most MaxNodes tensors over {Scale(2), Pow(2), Add, Sub, Mul, Eq}*)
(* with leaf values {2, 3}, every tracked / untracked assignment, every    *)
(* root, every valid order of edge applications, up to MaxBP               *)
(* back-propagations (graphs sharing leaves), resets.                      *)
(***************************************************************************)
EXTENDS Autograd

MC_LeafVals == {Scalar(QI(2)), Scalar(QI(3))}
MC_UnOps == {<<"scale", [k |-> Two]>>, <<"pow", [k |-> Two]>>}
MC_CtorShapes == {}
MC_BinOps == {<<"add", NoPar>>, <<"sub", NoPar>>, <<"mul", NoPar>>, <<"eq", NoPar>>}

(* keep rational entries far from TLC's 32-bit limit *)
Bounded == \A i \in Ids : \A p \in DOMAIN T[i].val.data : Abs(T[i].val.data[p].n) < 1000
=============================================================================
