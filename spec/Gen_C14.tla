------------------------------ MODULE Gen_C14 ------------------------------
(***************************************************************************)
(* C14: activation values.  Relu, LeakyRelu (default slope via a nil       *)
(* config, 0, 1/2, -1, 3), Sigmoid, Tanh over every shape of the grid;     *)
(* Softmax for every dim 0..rank-1 of every shape (nil config = dim 0),    *)
(* together with its sum along dim (which must be 1) and >= 0; a dim       *)
(* >= rank, and a negative dim, must be rejected.  Inputs include 0, -0    *)
(* and magnitudes up to 700.                                               *)
(***************************************************************************)
EXTENDS Emit

Grid == IF Thorough THEN Shapes(3, 3) \cup Shapes(5, 2)
        ELSE Shapes(2, 2) \cup {<<3>>, <<2, 3>>, <<3, 1, 2>>, <<2, 2, 2>>, <<1, 2, 1, 2>>, <<2, 1, 2, 1, 2>>, <<6>>, <<4, 5>>, <<2, 5, 3>>, <<17>>, <<18, 2>>}
GridSeq == SetToSeq(Grid)
Slopes == <<Q(1, 100), Zero, Half, QI(-1), QI(3), Q(1, 100000000), QI(-2), Cst("giga")>>       \* a slope of 1e-8: an implementation that forms 1 +- m loses it

ElemDescs == Flatten2([i \in DOMAIN GridSeq |->
   << <<"relu", GridSeq[i]>>, <<"sigmoid", GridSeq[i]>>, <<"tanhact", GridSeq[i]>> >>
   \o [m \in DOMAIN Slopes |-> <<"leakyrelu", GridSeq[i], Slopes[m], m = 1>>]])
SoftDescs == Flatten2([i \in DOMAIN GridSeq |->
   [d \in 1..Len(GridSeq[i]) |-> <<"softmax", GridSeq[i], d - 1, FALSE>>]
   \o (IF Len(GridSeq[i]) >= 1 THEN << <<"softmax", GridSeq[i], 0, TRUE>> >> ELSE <<>>)
   \o << <<"softmax-bad", GridSeq[i], Len(GridSeq[i])>>, <<"softmax-bad", GridSeq[i], Len(GridSeq[i]) + 1>>, <<"softmax-bad", GridSeq[i], -1>> >>])
(* the SAME activation object applied to several inputs of different shapes in turn, and to the first one again: *)
(* an activation is a function of its input only (no state may be carried from one call to the next)            *)
ReuseActs == <<"relu", "leakyrelu", "sigmoid", "tanhact", "softmax">>
ReuseShapes == <<<<<<2, 3>>, <<3, 2>>>>, <<<<2, 2>>, <<2, 2, 3>>>>, <<<<4>>, <<1, 4>>>>, <<<<2, 1, 2>>, <<2, 3, 2>>>>>>
ReuseDescs == Flatten2([a \in DOMAIN ReuseActs |-> [r \in DOMAIN ReuseShapes |-> <<"reuse", ReuseActs[a], ReuseShapes[r][1], ReuseShapes[r][2]>>]])
(* ... and with a call the object REJECTS (rank too low for its dimension) between the accepted ones *)
RejDescs == << <<"reuse-rej", <<2, 3>>, <<3>>, <<3, 2>>>>, <<"reuse-rej", <<2, 2, 2>>, <<2>>, <<1, 4>>>> >>
Descs == MyCases(ElemDescs \o SoftDescs \o ReuseDescs \o RejDescs)

D == "big,any,zero"
Build(d) ==
  CASE d[1] \in {"relu", "sigmoid", "tanhact"} ->
         MkCase("c14", d[1], <<In("x", d[2], FALSE)>>, <<D>>, <<Ins(d[1], NoPar, <<1>>)>>, <<2>>, 0, TRUE)
    [] d[1] = "leakyrelu" ->
         (* fourth profile: inputs next to the largest finite number (an implementation that forms m*x + (1-m)*max(0,x) overflows) *)
         MkCase("c14", d[1], <<In("x", d[2], FALSE)>>, <<D \o ",huge">>, <<Ins(d[1], [k |-> d[3], nilconf |-> d[4]], <<1>>)>>, <<2>>, 0, TRUE)
    [] d[1] = "softmax" ->
         (* fourth profile: one entry in five is +700, the others -700 (a slice far from symmetric about its mean) *)
         MkCase("c14", d[1], <<In("x", d[2], FALSE)>>, <<D \o ",lop700">>,
                <<Ins("softmax", [dim |-> d[3], nilconf |-> d[4]], <<1>>), Ins("sumalong", [dim |-> d[3]], <<2>>)>>, <<2, 3>>, 0, TRUE)
         @@ [props |-> <<"nonneg", "finite">>]
    [] d[1] = "reuse" ->
         LET par == CASE d[2] = "leakyrelu" -> [k |-> Half, nilconf |-> FALSE, inst |-> 1]
                      [] d[2] = "softmax" -> [dim |-> 0, nilconf |-> FALSE, inst |-> 1]
                      [] OTHER -> [inst |-> 1, dim |-> 0]
         IN MkCase("c14", d[2] \o "-reused", <<In("x", d[3], FALSE), In("y", d[4], FALSE)>>, <<D, D>>,
                   <<Ins(d[2], par, <<1>>), Ins(d[2], par, <<2>>), Ins(d[2], par, <<1>>), Ins(d[2], par, <<4>>)>>, <<3, 4, 5, 6>>, 0, TRUE)
    [] d[1] = "reuse-rej" ->
         LET par == [dim |-> 1, nilconf |-> FALSE, inst |-> 1]
             ins == <<In("x", d[2], FALSE), In("z", d[3], FALSE), In("y", d[4], FALSE)>>
             code == <<Ins("softmax", par, <<1>>), Ins("softmax", par, <<3>>), Ins("softmax", par, <<1>>)>>
         IN MkCase("c14", "softmax-reused-rejecting", ins, <<D, D, D>>, code, <<4, 5, 6>>, 0, TRUE)
            @@ [rejects |-> <<Rejected(ins, code, 2, Ins("softmax", par, <<2>>)), Rejected(ins, code, 3, Ins("softmax", par, <<2>>))>>]
    [] d[1] = "softmax-bad" ->
         MkCase("c14", d[1], <<In("x", d[2], FALSE)>>, <<"any">>, <<Ins("softmax", [dim |-> d[3], nilconf |-> FALSE], <<1>>)>>, <<>>, 0, TRUE)

Cases == [i \in DOMAIN Descs |-> Build(Descs[i])]
(* Softmax sums to 1 along dim: on the specification, exact, with e^x replaced by positive rationals *)
ASSUME \A g \in Shapes(2, 3) \ {<<>>} : \A d \in 1..Len(g) :
         LET x == SymT("x", g)
             y == Softmax(x, d - 1)
             env == [s \in {"x"} \X (1..Prod(g)) |-> QI(s[2])]
             \* substitute exp(x_i) by the literal i + 1: sums of e/sum(e) must fold to exactly 1
             RECURSIVE E(_)
             E(v) == CASE v.k = "a" /\ v.f = "exp" -> QI(v.a[1].i + 1)
                       [] v.k = "a" /\ v.f = "div" -> Div(E(v.a[1]), E(v.a[2]))
                       [] v.k = "a" /\ v.f = "add" -> Add(E(v.a[1]), E(v.a[2]))
                       [] OTHER -> v
             s == ReduceAlong("sum", [dims |-> y.dims, data |-> [p \in DOMAIN y.data |-> E(y.data[p])]], d - 1)
         IN \A p \in DOMAIN s.data : s.data[p] = One
ASSUME Write(Cases)
ASSUME PrintT(<<"generated", Len(Cases)>>)
=============================================================================
