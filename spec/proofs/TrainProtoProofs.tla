--------------------------- MODULE TrainProtoProofs ---------------------------
(* Unbounded (any parameter set, any number of steps) proof by TLAPS that a live forward pass never coexists with a   *)
(* spent parameter: an omitted reset can only surface as dead graphs and rejected updates, never as silent training. *)
EXTENDS TrainProto, TLAPS

TypeOK == /\ ctx \in [Params -> {"fresh", "graded", "stale"}]
          /\ live \in BOOLEAN
          /\ phase \in {"idle", "forwarded", "backpropped"}

Inv == TypeOK /\ DeadWhileStale

THEOREM InitInv == PInit => Inv
  BY DEF PInit, Inv, TypeOK, DeadWhileStale, Spent

THEOREM NextInv == Inv /\ [PNext]_pvars => Inv'
<1> SUFFICES ASSUME Inv, [PNext]_pvars PROVE Inv'
  OBVIOUS
<1>1. CASE PForward
  BY <1>1 DEF PForward, Inv, TypeOK, DeadWhileStale, Spent
<1>2. CASE PBackProp
  BY <1>2 DEF PBackProp, Inv, TypeOK, DeadWhileStale, Spent
<1>3. CASE \E p \in Params : PUpdate(p) \/ PReset(p)
  BY <1>3 DEF PUpdate, PReset, Inv, TypeOK, DeadWhileStale, Spent
<1>4. CASE PEndStep
  BY <1>4 DEF PEndStep, Inv, TypeOK, DeadWhileStale, Spent
<1>5. CASE UNCHANGED pvars
  BY <1>5 DEF pvars, Inv, TypeOK, DeadWhileStale, Spent
<1> QED
  BY <1>1, <1>2, <1>3, <1>4, <1>5 DEF PNext

THEOREM Safety == PSpec => []Inv
  BY InitInv, NextInv, PTL DEF PSpec
=============================================================================
