SPECIFICATION Spec
CONSTANTS
  Batch = 2
  Feat = 2
  Act = "leakyrelu"
  MaxSteps = 3
VIEW View
INVARIANTS NoLeak ShapesKept
PROPERTIES Descent StaleIsAnError GradIsCurrent
ACTION_CONSTRAINT Dump
CHECK_DEADLOCK FALSE
