------------------------------ MODULE Gen_C07 ------------------------------
(***************************************************************************)
(* C07: the gradient of a broadcast operand is the SUM of the upstream     *)
(* gradient over all positions the element was copied to.                  *)
(*                                                                         *)
(* Explicit Broadcast: every source shape of the grid x every target in    *)
(* the expansion grid (new leading dimensions, size-1 dimensions expanded, *)
(* both at once, factor 1 included).  Implicit expansion: Add, Sub, Mul,   *)
(* Div over every broadcast-compatible ordered pair of shapes, Dot and     *)
(* MatMul over compatible batch shapes, with either operand (or both)      *)
(* tracked.  Upstream weighting g as in C02.                               *)
(*                                                                         *)
(* Every case that really expands (factor > 1) also carries the "asis"     *)
(* expectation of the recorded finding D2 (Backprop.tla).                  *)
(***************************************************************************)
EXTENDS Emit

Src == (IF Thorough THEN Shapes(3, 3) ELSE Shapes(2, 2) \cup {<<3>>, <<1, 3>>, <<2, 1, 2>>, <<1, 1, 1>>}) \cup {<<5>>, <<4, 1>>, <<1, 5>>}
SrcSeq == SetToSeq(Src)
Expansions(dims) == {t \in [1..Len(dims) -> 1..5] : \A i \in DOMAIN dims : (dims[i] = 1 /\ t[i] \in {1, 2, 3}) \/ t[i] = dims[i]}
Leading == IF Thorough THEN {<<>>, <<1>>, <<2>>, <<3>>, <<2, 1>>, <<1, 2>>, <<2, 2>>} ELSE {<<>>, <<1>>, <<2>>, <<3, 1>>, <<1, 2>>}
BcastDescs == Flatten2([i \in DOMAIN SrcSeq |->
                 LET t == SetToSeq({l \o e : l \in Leading, e \in Expansions(SrcSeq[i])})
                 IN [j \in DOMAIN t |-> <<"bc", SrcSeq[i], t[j]>>]])

Subsets2 == <<<<TRUE, TRUE>>, <<TRUE, FALSE>>, <<FALSE, TRUE>>>>
PGrid == (IF Thorough THEN Shapes(3, 3) \cup Shapes(4, 2) ELSE Shapes(3, 2) \cup {<<3>>, <<1, 3>>, <<3, 1>>}) \cup {<<5>>, <<4, 5>>, <<4, 1>>, <<1, 5>>}
Pairs == SetToSeq({p \in PGrid \X PGrid : BCompatible(p[1], p[2]) /\ p[1] # p[2]})
AOps == <<"add", "sub", "mul", "div">>
ArithDescs == [i \in DOMAIN Pairs |-> <<"ar", AOps[((i + Seed) % 4) + 1], Pairs[i][1], Pairs[i][2], Subsets2[((i \div 4) % 3) + 1]>>]
ArithAll == Flatten2([i \in DOMAIN Pairs |-> Flatten2([f \in 1..4 |-> [t \in 1..3 |-> <<"ar", AOps[f], Pairs[i][1], Pairs[i][2], Subsets2[t]>>]])])

Batch == IF Thorough THEN Shapes(3, 2) \cup {<<3>>, <<1, 3>>} ELSE Shapes(2, 2) \cup {<<3>>, <<2, 1, 2>>}
BPairs == SetToSeq({p \in Batch \X Batch : BCompatible(p[1], p[2]) /\ p[1] # p[2]})
DotDescs == Flatten2([i \in DOMAIN BPairs |-> [t \in 1..3 |-> <<"ar", "dot", BPairs[i][1] \o <<2>>, BPairs[i][2] \o <<2>>, Subsets2[t]>>]])
MMDescs == Flatten2([i \in DOMAIN BPairs |-> [t \in 1..3 |->
              <<"ar", "matmul", BPairs[i][1] \o <<2, 3>>, BPairs[i][2] \o <<3, 2>>, Subsets2[t]>>]])

BigBc == << <<"bc", <<1, 11>>, <<11, 11>>>>, <<"bc", <<11, 1>>, <<11, 11>>>>, <<"bc", <<1, 12>>, <<11, 12>>>>, <<"bc", <<11, 2>>, <<11, 11, 2>>>>, <<"bc", <<10>>, <<1, 10>>>>,  <<"bc", <<1, 17>>, <<2, 17>>>>, <<"bc", <<9, 1>>, <<9, 2>>>>, <<"bc", <<1>>, <<19>>>>,  <<"bc", <<4, 1>>, <<4, 5>>>>, <<"bc", <<1, 5>>, <<4, 5>>>>, <<"bc", <<5>>, <<2, 5>>>>, <<"bc", <<4, 1>>, <<2, 4, 5>>>>, <<"bc", <<1, 1>>, <<6, 4>>>> >>
BigAr == << <<"ar", "add", <<1, 11>>, <<11, 11>>, <<TRUE, TRUE>>>>, <<"ar", "mul", <<11, 1>>, <<11, 11>>, <<TRUE, FALSE>>>>, <<"ar", "sub", <<11, 11>>, <<11, 1>>, <<TRUE, TRUE>>>>,
           <<"ar", "div", <<12, 1>>, <<1, 11>>, <<TRUE, TRUE>>>> >>
(* an expansion of an expansion (explicit then explicit, explicit then implicit): the INTERMEDIATE tensor's gradient is the *)
(* sum over its own copies; and an explicit Broadcast result used by two consumers                                        *)
ChainDescs == << <<"chain", <<3>>, <<2, 3>>, <<2, 2, 3>>>>, <<"chain", <<1, 2>>, <<3, 2>>, <<2, 3, 2>>>>, <<"chain", <<2, 1>>, <<2, 3>>, <<4, 2, 3>>>>,
                 <<"chain", <<3>>, <<1, 3>>, <<1, 1, 3>>>>, <<"chain", <<>>, <<2>>, <<3, 2>>>>,
                 <<"chainadd", <<3>>, <<2, 3>>, <<2, 2, 3>>>>, <<"chainadd", <<2, 1>>, <<2, 3>>, <<2, 2, 3>>>>, <<"chainadd", <<3>>, <<1, 3>>, <<4, 1, 3>>>>,
                 <<"fan", <<3>>, <<2, 3>>>>, <<"fan", <<1, 2>>, <<3, 2>>>>, <<"fan", <<3>>, <<1, 3>>>>, <<"fan", <<2, 1>>, <<3, 2, 2>>>> >>
(* two expansions whose (source, target) shape pairs collide under the usual cache-key folds (decimal digits without a   *)
(* separator, base-B sums), in ONE graph - the replays run in separate processes, so two cases cannot meet in a cache    *)
PairBcDescs == << <<"pairbc", <<1, 11>>, <<11, 11>>, <<11, 1>>, <<11, 11>>>>, <<"pairbc", <<12>>, <<1, 2, 12>>, <<1, 2>>, <<12, 1, 2>>>>,
                  <<"pairbc", <<1, 1>>, <<2, 11>>, <<11>>, <<2, 11>>>>, <<"pairbc", <<2, 1>>, <<2, 3>>, <<1, 32>>, <<2, 32>>>>,
                  <<"pairbc", <<1, 2>>, <<3, 2>>, <<33, 1>>, <<33, 2>>>> >>
(* the expansion's result in a LATER operand slot of an operation whose earlier slot holds something computed from it: a *)
(* traversal that marks tensors when it first sees them (rather than when it expands them) orders the result before its   *)
(* own consumer and hands the operand the reduction of an incomplete gradient                                             *)
LaterDescs == << <<"later", <<3>>, <<2, 3>>, 1>>, <<"later", <<1, 2>>, <<3, 2>>, 1>>, <<"later", <<2, 1>>, <<2, 3>>, 2>>, <<"later", <<>>, <<2>>, 1>> >>
All == LaterDescs \o PairBcDescs \o ChainDescs \o BigAr \o BigBc \o BcastDescs \o (IF Thorough THEN ArithAll ELSE ArithDescs) \o DotDescs \o MMDescs
Descs == MyCases(All)

WithG(name, ins, doms, op, par, ydims) ==
  LET n == Len(ins)
      inputs == ins \o <<In("g", ydims, FALSE)>>
  IN MkCaseD("c07", name, inputs, doms \o <<"any,any,tiny170">>,            \* third profile: a non-constant upstream gradient of magnitude 1e-170 (its squares underflow)
             <<Ins(op, par, [k \in 1..n |-> k]), Ins("mul", NoPar, <<n + 2, n + 1>>)>>, <<n + 2>>, n + 3, FALSE)

YDims(op, par, dimsSeq) == OpApply(op, par, [k \in DOMAIN dimsSeq |-> SymT("t", dimsSeq[k])]).dims

Build(d) ==
  CASE d[1] = "pairbc" ->
         LET r1 == Len(d[3])  r2 == Len(d[5])
             code == <<Ins("broadcast", [shape |-> d[3]], <<1>>), Ins("broadcast", [shape |-> d[5]], <<2>>),
                       Ins("flatten", [dim |-> 0], <<3>>), Ins("sumalong", [dim |-> 0], <<5>>),
                       Ins("flatten", [dim |-> 0], <<4>>), Ins("sumalong", [dim |-> 0], <<7>>), Ins("add", NoPar, <<6, 8>>)>>
         IN MkCaseD("c07", "two-broadcasts", <<In("a", d[2], TRUE), In("b", d[4], TRUE)>>, <<"any,distinct", "any,distinct">>, code, <<3, 4>>, 9, FALSE)
    [] d[1] = "later" ->
         LET t == d[3]
             cd == SetDim(t, 1, 2 * t[1])
             first == IF d[4] = 1 THEN <<4, 3>> ELSE <<3, 4>>
         IN MkCaseD("c07", "broadcast-in-a-later-slot", <<In("a", d[2], TRUE), In("g", cd, FALSE)>>, <<"any", "any">>,
                    <<Ins("broadcast", [shape |-> t], <<1>>), Ins("scale", [k |-> QI(3)], <<3>>), Ins("concat", [dim |-> 0], first),
                      Ins("mul", NoPar, <<5, 2>>)>>, <<3, 5>>, 6, FALSE)
    [] d[1] = "chain" ->
         MkCaseD("c07", "broadcast-of-broadcast", <<In("a", d[2], TRUE), In("g", d[4], FALSE)>>, <<"any", "any">>,
                 <<Ins("broadcast", [shape |-> d[3]], <<1>>), Ins("broadcast", [shape |-> d[4]], <<3>>), Ins("mul", NoPar, <<4, 2>>)>>, <<3, 4>>, 5, FALSE)
    [] d[1] = "chainadd" ->
         MkCaseD("c07", "broadcast-then-add", <<In("a", d[2], TRUE), In("w", d[4], FALSE), In("g", d[4], FALSE)>>, <<"any", "any", "any">>,
                 <<Ins("broadcast", [shape |-> d[3]], <<1>>), Ins("add", NoPar, <<4, 2>>), Ins("mul", NoPar, <<5, 3>>)>>, <<4, 5>>, 6, FALSE)
    [] d[1] = "fan" ->
         MkCaseD("c07", "broadcast-two-consumers", <<In("a", d[2], TRUE), In("g", d[3], FALSE), In("h", d[3], FALSE)>>, <<"any", "any", "any">>,
                 <<Ins("broadcast", [shape |-> d[3]], <<1>>), Ins("mul", NoPar, <<4, 2>>), Ins("mul", NoPar, <<4, 3>>), Ins("add", NoPar, <<5, 6>>)>>, <<4, 7>>, 7, FALSE)
    [] d[1] = "bc" -> WithG("broadcast", <<In("a", d[2], TRUE)>>, <<"any">>, "broadcast", [shape |-> d[3]], d[3])
    [] d[1] = "ar" -> WithG(d[2], <<In("a", d[3], d[5][1]), In("b", d[4], d[5][2])>>,
                            IF d[2] = "div" THEN <<"any", "nz">> ELSE <<"any", "any">>,
                            d[2], NoPar, YDims(d[2], NoPar, <<d[3], d[4]>>))

Cases == [i \in DOMAIN Descs |-> Build(Descs[i])]
ASSUME Write(Cases)
ASSUME PrintT(<<"generated", Len(Cases), "of", Len(All)>>)
=============================================================================
