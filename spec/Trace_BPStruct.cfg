SPECIFICATION Spec
CONSTRAINT HighWater
POSTCONDITION TraceAccepted
CHECK_DEADLOCK FALSE
