-------------------------------- MODULE Prog --------------------------------
(***************************************************************************)
(* Straight-line tensor programs and the DEFINITION of their gradients.    *)
(*                                                                         *)
(* A program is                                                            *)
(*   inputs : sequence of [name, dims, tracked]   (symbolic leaf tensors)  *)
(*   code   : sequence of [op, par, args]         (args are node ids)      *)
(* Node ids 1..Len(inputs) are the inputs; node Len(inputs)+i is the       *)
(* result of code[i].                                                      *)
(*                                                                         *)
(* Gradients are defined, not computed by backward rules: the gradient     *)
(* that back-propagating from node r must leave on node m is the vector    *)
(*        d (sum of the elements of r) / d m[i]                            *)
(* obtained by cutting the program at m (m's value replaced by fresh       *)
(* symbols), differentiating r's element terms with respect to those       *)
(* symbols, and substituting m's value back.                               *)
(***************************************************************************)
EXTENDS Components

NIn(inputs) == Len(inputs)

AnyOp(op) == IF op \in CompOps THEN "comp" ELSE "tensor"
OpPre(op, par, ad) == IF op \in CompOps THEN CompPre(op, par, ad) ELSE Pre(op, par, ad)
OpApply(op, par, args) == IF op \in CompOps THEN CompApply(op, par, args) ELSE Apply(op, par, args)
IsDiffOp(op) == op \in DiffOps \cup CompOps

(* values of all nodes; cut = 0, or the node whose value is replaced by the fresh symbols "cut" *)
RECURSIVE RunFrom(_, _, _, _)
RunFrom(vals, code, i, cut) ==
  IF i > Len(code) THEN vals
  ELSE LET ins == code[i]
           v == OpApply(ins.op, ins.par, [a \in DOMAIN ins.args |-> vals[ins.args[a]]])
           id == Len(vals) + 1
           v2 == IF id = cut THEN SymT("cut", v.dims) ELSE v
       IN RunFrom(Append(vals, v2), code, i + 1, cut)

InputVals(inputs, cut) ==
  [n \in 1..Len(inputs) |-> IF n = cut THEN SymT("cut", inputs[n].dims) ELSE SymT(inputs[n].name, inputs[n].dims)]

Run(inputs, code) == RunFrom(InputVals(inputs, 0), code, 1, 0)
RunCut(inputs, code, cut) == RunFrom(InputVals(inputs, cut), code, 1, cut)

(* the precondition of every instruction holds *)
RECURSIVE PreFrom(_, _, _)
PreFrom(vals, code, i) ==
  IF i > Len(code) THEN TRUE
  ELSE LET ins == code[i]
           ad == [a \in DOMAIN ins.args |-> vals[ins.args[a]].dims]
       IN IF ~OpPre(ins.op, ins.par, ad) THEN FALSE
          ELSE PreFrom(Append(vals, OpApply(ins.op, ins.par, [a \in DOMAIN ins.args |-> vals[ins.args[a]]])), code, i + 1)
WellFormed(inputs, code) == PreFrom(InputVals(inputs, 0), code, 1)

(* ---- tracking (no node is spent before the single back-propagation) ---- *)
RECURSIVE TrackedFrom(_, _, _)
TrackedFrom(tr, code, i) ==
  IF i > Len(code) THEN tr
  ELSE LET ins == code[i]
       IN TrackedFrom(Append(tr, IsDiffOp(ins.op) /\ \E a \in DOMAIN ins.args : tr[ins.args[a]]), code, i + 1)
Tracked(inputs, code) == TrackedFrom([n \in 1..Len(inputs) |-> inputs[n].tracked], code, 1)

(* tracked nodes back-propagation from r passes through *)
RECURSIVE ReachP(_, _, _, _)
ReachP(r, inputs, code, tr) ==
  IF ~tr[r] THEN {}
  ELSE IF r <= Len(inputs) THEN {r}
  ELSE LET ins == code[r - Len(inputs)]
       IN {r} \cup UNION {ReachP(ins.args[a], inputs, code, tr) : a \in DOMAIN ins.args}

(* d (sum of root elements) / d sym(name, i) for i in 1..n *)
TotalGrad(rd, name, n) ==
  LET S == [j \in DOMAIN rd |-> SymsOf(rd[j])]
  IN [i \in 1..n |-> SumV([j \in DOMAIN rd |-> IF <<name, i>> \in S[j] THEN Diff(rd[j], Sym(name, i)) ELSE Zero])]

(* the gradient node m must hold after back-propagating from node r *)
GradDef(inputs, code, r, m) ==
  LET plain == Run(inputs, code)
      cutv == RunCut(inputs, code, m)
      n == Prod(plain[m].dims)
      g == IF m = r THEN [i \in 1..n |-> One] ELSE TotalGrad(cutv[r].data, "cut", n)
      env == [s \in {"cut"} \X (1..n) |-> plain[m].data[s[2]]]
  IN [i \in 1..n |-> Subst(g[i], env)]

(* everything a back-propagation from r must leave behind:                  *)
(*   grads  : [node, dims, data] for every tracked node it passes through   *)
(*   nograd : the other nodes (they must have no gradient)                  *)
BPOutcome(inputs, code, r) ==
  LET tr == Tracked(inputs, code)
      vals == Run(inputs, code)
      N == Len(vals)
      reach == ReachP(r, inputs, code, tr)
      RECURSIVE Build(_)
      Build(m) == IF m > N THEN <<>>
                  ELSE (IF m \in reach
                        THEN <<[node |-> m, dims |-> vals[m].dims, data |-> GradDef(inputs, code, r, m)]>>
                        ELSE <<>>) \o Build(m + 1)
      RECURSIVE Rest(_)
      Rest(m) == IF m > N THEN <<>> ELSE (IF m \in reach THEN <<>> ELSE <<m>>) \o Rest(m + 1)
  IN [grads |-> Build(1), nograd |-> Rest(1), tracked |-> tr]

Ins(op, par, args) == [op |-> op, par |-> par, args |-> args]
In(name, dims, tracked) == [name |-> name, dims |-> dims, tracked |-> tracked]

=============================================================================
