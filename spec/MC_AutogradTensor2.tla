-------------------------- MODULE MC_AutogradTensor2 --------------------------
(***************************************************************************)
(* A second tensor-valued configuration of the autograd machine, with the  *)
(* other half of the rational-closed alphabet: MaxAlong, AvgAlong,         *)
(* VarAlong, Reshape, UnSqueeze, explicit Broadcast, Pow(2), Dot, Patch,   *)
(* Div, Sub.  Leaf entries are pairwise distinct so that extrema have no   *)
(* ties; states in which a tie or a division by zero nevertheless arises   *)
(* (a non-literal value or gradient) are pruned by the constraint.         *)
(***************************************************************************)
EXTENDS Autograd

MC_LeafVals == {LitT(<<2, 2>>, <<1, -2, 4, 3>>), LitT(<<2>>, <<5, -1>>)}
MC_UnOps == {<<"maxalong", [dim |-> 0]>>, <<"avgalong", [dim |-> 0]>>, <<"varalong", [dim |-> 0]>>, <<"reshape", [shape |-> <<4>>]>>,
             <<"unsqueeze", [dim |-> 0]>>, <<"broadcast", [shape |-> <<2, 2, 2>>]>>, <<"pow", [k |-> Two]>>, <<"flatten", [dim |-> 0]>>}
MC_CtorShapes == {}
MC_BinOps == {<<"dot", NoPar>>, <<"patch", [index |-> <<<<0, 1>>>>]>>, <<"div", NoPar>>, <<"sub", NoPar>>}

Bounded == \A i \in Ids : /\ AllLiteral(T[i].val.data) /\ AllLiteral(T[i].grad) /\ AllLiteral(T[i].gradA)
                          /\ \A p \in DOMAIN T[i].val.data : Abs(T[i].val.data[p].n) < 500 /\ T[i].val.data[p].d < 500
=============================================================================
