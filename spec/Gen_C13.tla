------------------------------ MODULE Gen_C13 ------------------------------
(***************************************************************************)
(* C13: loss gradients with respect to the prediction.                     *)
(*                                                                         *)
(* The expected gradient is the derivative of the loss DEFINITION          *)
(* (Prog!GradDef).  TLC additionally checks below, on rational instances,  *)
(* that this derivative equals the closed forms of the statement:          *)
(* 2(p - t)/N, ((1 - t)/(1 - p) - t/p)/N, -(t/p)/N, and 0 where clipped.   *)
(* The prediction is supplied (i) as a tracked leaf, (ii) as the output of *)
(* x.Scale(1/2).Add(d), (iii) as the output of an FC layer followed by     *)
(* Sigmoid (BCE) / Softmax (CE) - gradient compared on the prediction AND  *)
(* on everything upstream.  Untracked predictions / targets get none.      *)
(***************************************************************************)
EXTENDS Emit

Ns == (IF Thorough THEN 1..4 ELSE 1..3) \cup {6, 17}
Cs == IF Thorough THEN 1..3 ELSE 1..2
LossDims == SetToSeq(({"mse", "bce"} \X {<<n>> : n \in Ns}) \cup ({"ce"} \X {<<n, c>> : n \in Ns, c \in Cs}))

Leaf == Flatten2([i \in DOMAIN LossDims |-> << <<"leaf", LossDims[i][1], LossDims[i][2], TRUE, FALSE>>,
                                               <<"leaf", LossDims[i][1], LossDims[i][2], TRUE, TRUE>>,
                                               <<"leaf", LossDims[i][1], LossDims[i][2], FALSE, TRUE>> >>])
Chain == [i \in DOMAIN LossDims |-> <<"chain", LossDims[i][1], LossDims[i][2]>>]
Net == Flatten2([n \in 1..(IF Thorough THEN 3 ELSE 2) |-> Flatten2([f \in 1..2 |->
          << <<"net-bce", n, f>>, <<"net-mse", n, f>>, <<"net-ce", n, f, 2>>, <<"net-ce", n, f, 3>> >>])])

(* the prediction is g(x) + x with x used twice: the prediction's gradient object is handed through Add to x, which then *)
(* receives a second contribution - the prediction's own gradient must not move                                          *)
Fan == [i \in DOMAIN LossDims |-> <<"fan", LossDims[i][1], LossDims[i][2]>>]
(* a target computed AFTER an earlier back-propagation from a tensor that took part in it, then made a plain leaf by     *)
(* ResetGradContext(false): the loss of a fresh tracked prediction against it back-propagates like any other            *)
Retarget == [i \in DOMAIN LossDims |-> <<"retarget", LossDims[i][1], LossDims[i][2]>>]
Descs == MyCases(Leaf \o Chain \o Fan \o Retarget \o Net)

PDom(loss) == IF loss = "mse" THEN "any,prob01" ELSE "prob01,unit,prob01in,nearbound"     \* nearbound: one ulp / a few ppm off a clipping bound, on either side
Build(d) ==
  CASE d[1] = "leaf" ->
         MkCase("c13", d[2], <<In("p", d[3], d[4]), In("t", d[3], d[5])>>,
                <<PDom(d[2]), IF d[5] THEN "unit" ELSE "targ01,targ01,targ01,t0">>, <<Ins(d[2], NoPar, <<1, 2>>)>>, <<3>>, 3, FALSE)
    [] d[1] = "chain" ->
         MkCase("c13", d[2], <<In("x", d[3], TRUE), In("d", d[3], FALSE), In("t", d[3], FALSE)>>, <<"unit", "q01", "targ01">>,
                <<Ins("scale", [k |-> Half], <<1>>), Ins("add", NoPar, <<4, 2>>), Ins(d[2], NoPar, <<5, 3>>)>>, <<5, 6>>, 6, FALSE)
    [] d[1] = "fan" ->
         MkCase("c13", d[2] \o "-fan", <<In("x", d[3], TRUE), In("t", d[3], FALSE)>>, <<"q01", "targ01">>,
                <<Ins("scale", [k |-> Half], <<1>>), Ins("add", NoPar, <<3, 1>>), Ins(d[2], NoPar, <<4, 2>>)>>, <<4, 5>>, 5, FALSE)
    [] d[1] = "retarget" ->
         LET ins == <<In("p", d[3], TRUE), In("t", d[3], FALSE), In("q", d[3], TRUE)>>
             code == <<Ins(d[2], NoPar, <<1, 2>>)>>
             (* the program of the second epoch as a function of the inputs (the reset does not touch values) *)
             code2 == <<Ins(d[2], NoPar, <<1, 2>>), Ins("scale", [k |-> Half], <<1>>), Ins(d[2], NoPar, <<3, 5>>)>>
         IN MkCase("c13", d[2] \o "-retarget", ins, <<PDom(d[2]), "targ01", PDom(d[2])>>, code, <<4>>, 4, FALSE)
            @@ [post |-> <<EncIns(Ins("scale", [k |-> Half], <<1>>)), EncIns(Ins("detach", NoPar, <<5>>)), EncIns(Ins(d[2], NoPar, <<3, 6>>)),
                           EncIns(Ins("bp", NoPar, <<7>>))>>,
                postgrads |-> <<[node |-> 3, dims |-> d[3], data |-> EncSeq(GradDef(ins, code2, 6, 3))],
                                [node |-> 1, dims |-> d[3], data |-> EncSeq(GradDef(ins, code, 4, 1))]>>]
    [] d[1] = "net-bce" ->
         MkCaseD("c13", "fc-sigmoid-bce", <<In("w", <<1>>, TRUE), In("b", <<1>>, TRUE), In("x", <<d[2], d[3]>>, TRUE), In("t", <<d[2]>>, FALSE)>>,
                 <<"small", "small", "small", "targ01">>,
                 <<Ins("fc", NoPar, <<1, 2, 3>>), Ins("sigmoid", NoPar, <<5>>), Ins("squeeze", [dim |-> 1], <<6>>), Ins("bce", NoPar, <<7, 4>>)>>,
                 <<7, 8>>, 8, FALSE)
    [] d[1] = "net-mse" ->
         MkCaseD("c13", "fc-tanh-mse", <<In("w", <<1>>, TRUE), In("b", <<1>>, TRUE), In("x", <<d[2], d[3]>>, FALSE), In("t", <<d[2]>>, FALSE)>>,
                 <<"small", "small", "small", "any">>,
                 <<Ins("fc", NoPar, <<1, 2, 3>>), Ins("tanhact", NoPar, <<5>>), Ins("squeeze", [dim |-> 1], <<6>>), Ins("mse", NoPar, <<7, 4>>)>>,
                 <<7, 8>>, 8, FALSE)
    [] d[1] = "net-ce" ->
         MkCaseD("c13", "fc-softmax-ce", <<In("w", <<d[4]>>, TRUE), In("b", <<d[4]>>, TRUE), In("x", <<d[2], d[3]>>, TRUE), In("t", <<d[2], d[4]>>, FALSE)>>,
                 <<"small", "small", "small", "targ01">>,
                 <<Ins("fc", NoPar, <<1, 2, 3>>), Ins("softmax", [dim |-> 1], <<5>>), Ins("ce", NoPar, <<6, 4>>)>>,
                 <<6, 7>>, 7, FALSE)

Cases == [i \in DOMAIN Descs |-> Build(Descs[i])]

(* ---- closed forms, on the specification, exact rationals ---- *)
PV(n) == [b \in 1..n |-> Q(b, n + 2)]                \* predictions strictly inside (0, 1)
TV(n) == [b \in 1..n |-> Q((b * b) % 3, 2 + (b % 2))]     \* targets in [0, 1]
EnvOf(n) == [s \in ({"p"} \X (1..n)) \cup ({"t"} \X (1..n)) |-> IF s[1] = "p" THEN PV(n)[s[2]] ELSE TV(n)[s[2]]]
GradAt(loss, dims) ==
  LET n == Prod(dims)
      g == GradDef(<<In("p", dims, TRUE), In("t", dims, FALSE)>>, <<Ins(loss, NoPar, <<1, 2>>)>>, 3, 1)
  IN [i \in 1..n |-> Subst(g[i], EnvOf(n))]
ASSUME \A n \in 1..4 :
         LET p == PV(n) t == TV(n) N == QI(n)
         IN /\ GradAt("mse", <<n>>) = [b \in 1..n |-> Div(Mul(Two, Sub(p[b], t[b])), N)]
            /\ GradAt("bce", <<n>>) = [b \in 1..n |-> Div(Sub(Div(Sub(One, t[b]), Sub(One, p[b])), Div(t[b], p[b])), N)]
ASSUME \A n \in 1..2 : \A c \in 1..2 :
         LET p == PV(n * c) t == TV(n * c)
         IN GradAt("ce", <<n, c>>) = [i \in 1..(n * c) |-> Neg(Div(Div(t[i], p[i]), QI(n)))]
(* clipped predictions (exactly 0, exactly 1, outside [0,1]) have a zero gradient *)
ClipEnv == [s \in ({"p"} \X (1..3)) \cup ({"t"} \X (1..3)) |-> IF s[1] = "p" THEN <<Zero, One, QI(2)>>[s[2]] ELSE Half]
ASSUME LET g == GradDef(<<In("p", <<3>>, TRUE), In("t", <<3>>, FALSE)>>, <<Ins("bce", NoPar, <<1, 2>>)>>, 3, 1)
       IN [i \in 1..3 |-> Subst(g[i], ClipEnv)] = <<Zero, Zero, Zero>>

ASSUME Write(Cases)
ASSUME PrintT(<<"generated", Len(Cases)>>)
=============================================================================
