---------------------------- MODULE Trace_BPStruct ----------------------------
(***************************************************************************)
(* Structural trace validation of back-propagations performed by code the  *)
(* harness does not drive - in particular the REPOSITORY'S OWN TEST SUITE  *)
(* run with -tags verif and QEEP_VERIF_TRACE set.  Each recorded           *)
(* back-propagation starts with the graph reachable from the root (one     *)
(* node per gradient context, hidden broadcast tensors included: nothing   *)
(* is contracted here) and continues with the hook events.  The machine    *)
(* below is Autograd's back-propagation protocol without values:           *)
(*   begin  loads the graph; pending := all edges of tracked nodes         *)
(*          reachable from the root through tracked targets                *)
(*   seed   exactly once, before any edge                                  *)
(*   edge   must be pending, its consumer must be complete (no pending     *)
(*          edge targets it), "applied" must equal the target's tracking   *)
(*   end    only when nothing is pending                                   *)
(* so every backward edge is applied exactly once, in an order in which    *)
(* every gradient is complete before it is used.                           *)
(***************************************************************************)
EXTENDS Integers, Sequences, FiniteSets, TLC, Json, IOUtils

Trace == ndJsonDeserialize(IF "QV_TRACE" \in DOMAIN IOEnv THEN IOEnv.QV_TRACE ELSE "trace.ndjson")

VARIABLES l, g, pending, phase
vars == <<l, g, pending, phase>>

Ev == Trace[l]
IsEvent(name) == l <= Len(Trace) /\ Trace[l].ev = name /\ l' = l + 1

NodeOf(G, id) == CHOOSE n \in DOMAIN G : G[n].id = id
Tracked(G, id) == G[NodeOf(G, id)].tracked
Targets(G, id) == G[NodeOf(G, id)].targets

RECURSIVE ReachS(_, _, _)
ReachS(G, id, seen) ==
  IF id \in seen \/ ~Tracked(G, id) THEN seen
  ELSE LET t == Targets(G, id)
           RECURSIVE Fold(_, _)
           Fold(k, s) == IF k > Len(t) THEN s ELSE Fold(k + 1, ReachS(G, t[k], s))
       IN Fold(1, seen \cup {id})

Begin ==
  /\ IsEvent("begin") /\ phase = "idle"
  /\ g' = Ev.nodes
  /\ LET R == ReachS(Ev.nodes, Ev.root, {})
     IN pending' = UNION {{<<y, k>> : k \in DOMAIN Targets(Ev.nodes, y)} : y \in R}
  /\ phase' = IF Tracked(Ev.nodes, Ev.root) THEN "marked" ELSE "dead"

Seed == IsEvent("seed") /\ phase = "marked" /\ phase' = "seeded" /\ UNCHANGED <<g, pending>>

Edge ==
  /\ IsEvent("edge") /\ phase = "seeded"
  /\ <<Ev.y, Ev.k>> \in pending
  /\ Targets(g, Ev.y)[Ev.k] = Ev.x
  /\ \A f \in pending : Targets(g, f[1])[f[2]] # Ev.y          \* the consumer's gradient is complete
  /\ Ev.applied = Tracked(g, Ev.x)
  /\ pending' = pending \ {<<Ev.y, Ev.k>>}
  /\ UNCHANGED <<g, phase>>

End == IsEvent("end") /\ phase = "seeded" /\ pending = {} /\ phase' = "idle" /\ g' = <<>> /\ UNCHANGED pending

Init == l = 1 /\ g = <<>> /\ pending = {} /\ phase = "idle"
Next == Begin \/ Seed \/ Edge \/ End
Spec == Init /\ [][Next]_vars

ASSUME TLCSet(1, 0)
HighWater == TLCSet(1, IF l > TLCGet(1) THEN l ELSE TLCGet(1))
TraceAccepted == IF TLCGet(1) = Len(Trace) + 1 THEN TRUE ELSE PrintT(<<"TRACE-REJECTED-AT", TLCGet(1)>>) /\ FALSE
=============================================================================
