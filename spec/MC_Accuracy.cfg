SPECIFICATION Spec
CONSTANTS
  Labels = {0, 1, 2}
  MaxBatch = 3
  MaxSeen = 6
  MaxBad = 2
VIEW ViewFull
INVARIANTS MatchedOverTotal Bounds
PROPERTIES RejectedChangesNothing
CHECK_DEADLOCK FALSE
