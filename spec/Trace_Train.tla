------------------------------ MODULE Trace_Train ------------------------------
(***************************************************************************)
(* Trace validation of training protocols recorded from REAL models        *)
(* (several FC layers, any activation, MSE, one SGD object): the driver    *)
(* performs random protocols - updates and resets omitted, reordered,      *)
(* resets before updates - for many steps, and logs after every call       *)
(*   forward   whether the loss came out tracked                            *)
(*   update    the parameter and whether Update returned an error          *)
(* and, always, (tracked, spent, hasGrad) of the tensor currently behind   *)
(* every parameter pointer.  Each event must be the matching action of     *)
(* TrainProto with exactly the logged outcome.                             *)
(***************************************************************************)
EXTENDS TrainProto, Integers, Sequences, TLC, Json, IOUtils

Trace == ndJsonDeserialize(IF "QV_TRACE" \in DOMAIN IOEnv THEN IOEnv.QV_TRACE ELSE "trace.ndjson")
VARIABLE l
tvars == <<ctx, live, phase, done, last, l>>

Ev == Trace[l]
IsEvent(name) == l <= Len(Trace) /\ Trace[l].ev = name /\ l' = l + 1

CtxOf(f) == CASE f = <<TRUE, FALSE, FALSE>> -> "fresh"
              [] f = <<TRUE, TRUE, TRUE>> -> "graded"
              [] f = <<FALSE, TRUE, FALSE>> -> "stale"
              [] OTHER -> "unspecified"
(* the logged state after the call is the state the action produces *)
Logged == \A p \in Params : ctx'[p] = CtxOf(Ev.flags[p])

TForward == IsEvent("forward") /\ PForward /\ live' = Ev.live /\ Logged
TBackProp == IsEvent("backprop") /\ PBackProp /\ Logged
TUpdate == IsEvent("update") /\ PUpdate(Ev.p) /\ last' = (IF Ev.ok THEN "ok" ELSE "error") /\ Logged
TReset == IsEvent("reset") /\ PReset(Ev.p) /\ Logged
TEndStep == IsEvent("endstep") /\ PEndStep /\ Logged
(* "end" separates concatenated recordings *)
TEnd == IsEvent("end") /\ ctx' = [p \in Params |-> "fresh"] /\ live' = FALSE /\ phase' = "idle" /\ done' = {} /\ last' = "ok"

Init == PInit /\ l = 1
Next == TForward \/ TBackProp \/ TUpdate \/ TReset \/ TEndStep \/ TEnd
Spec == Init /\ [][Next]_tvars

ASSUME TLCSet(1, 0)
HighWater == TLCSet(1, IF l > TLCGet(1) THEN l ELSE TLCGet(1))
TraceAccepted == IF TLCGet(1) = Len(Trace) + 1 THEN TRUE ELSE PrintT(<<"TRACE-REJECTED-AT", TLCGet(1)>>) /\ FALSE
=============================================================================
