-------------------------- MODULE MC_AutogradTensor --------------------------
(***************************************************************************)
(* The autograd machine over small tensors with real Jacobians: shapes     *)
(* [2], [1,2], [2,2]; alphabet SumAlong(0), Transpose, Slice, Scale(-1),   *)
(* Add and Mul (with implicit expansion), MatMul, Concat(0).               *)
(* With Dev = {} every property holds.  The shadow field gradA follows the *)
(* recorded deviation "broadcast_grad_mean" wherever an Add / Mul / MatMul *)
(* expands an operand; the dump carries both so that the harness can tell  *)
(* the recorded finding from any other discrepancy.                        *)
(***************************************************************************)
EXTENDS Autograd

MC_LeafVals == {LitT(<<2>>, <<1, 2>>), LitT(<<1, 2>>, <<3, -1>>), LitT(<<2, 2>>, <<1, -2, 0, 3>>)}
MC_UnOps == {<<"sumalong", [dim |-> 0]>>, <<"transpose", NoPar>>, <<"slice", [index |-> <<<<0, 1>>>>]>>, <<"scale", [k |-> MinusOne]>>}
MC_CtorShapes == {}
MC_BinOps == {<<"add", NoPar>>, <<"mul", NoPar>>, <<"matmul", NoPar>>, <<"concat", [dim |-> 0]>>}

Bounded == \A i \in Ids : \A p \in DOMAIN T[i].val.data : Abs(T[i].val.data[p].n) < 200
=============================================================================
