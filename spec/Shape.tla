------------------------------- MODULE Shape -------------------------------
(***************************************************************************)
(* Shapes, multi-indexes and row-major order.                              *)
(*                                                                         *)
(* A shape ("dims") is a sequence of positive integers (<<>> is a scalar). *)
(* A multi-index is a sequence of 0-based coordinates.  The position of a  *)
(* multi-index in row-major order is 0-based; tensor data sequences are    *)
(* 1-based, hence the "+ 1" in TensorOps!At.                               *)
(***************************************************************************)
EXTENDS Integers, Sequences, FiniteSets

RECURSIVE Prod(_)
Prod(s) == IF s = <<>> THEN 1 ELSE Head(s) * Prod(Tail(s))

RECURSIVE Unflat(_, _)
Unflat(p, dims) == IF dims = <<>> THEN <<>>
                   ELSE LET r == Prod(Tail(dims)) IN <<p \div r>> \o Unflat(p % r, Tail(dims))

RECURSIVE Flat(_, _)
Flat(idx, dims) == IF dims = <<>> THEN 0
                   ELSE Head(idx) * Prod(Tail(dims)) + Flat(Tail(idx), Tail(dims))

Rank(dims) == Len(dims)

(* all shapes of rank <= r with sizes in 1..d *)
Shapes(r, d) == UNION {[1..n -> 1..d] : n \in 0..r}
ShapesOfRank(n, d) == [1..n -> 1..d]

ValidDims(dims) == \A i \in DOMAIN dims : dims[i] > 0

MaxI(a, b) == IF a > b THEN a ELSE b
MinI(a, b) == IF a < b THEN a ELSE b

DropDim(s, d) == [i \in 1..(Len(s) - 1) |-> IF i < d THEN s[i] ELSE s[i + 1]]        \* d is 1-based
InsDim(s, d, v) == [i \in 1..(Len(s) + 1) |-> IF i < d THEN s[i] ELSE IF i = d THEN v ELSE s[i - 1]]
SetDim(s, d, v) == [i \in 1..Len(s) |-> IF i = d THEN v ELSE s[i]]
SwapLast2(s) == LET n == Len(s) IN [i \in 1..n |-> IF i = n - 1 THEN s[n] ELSE IF i = n THEN s[n - 1] ELSE s[i]]
Prefix(s, n) == SubSeq(s, 1, n)
Suffix(s, n) == SubSeq(s, Len(s) - n + 1, Len(s))                                     \* last n entries

(* ---- NumPy-style (right-aligned) broadcasting ---- *)

(* src may be expanded to dst: not longer, and every right-aligned size is equal or 1 *)
BroadcastOK(src, dst) ==
  /\ Len(src) <= Len(dst)
  /\ \A i \in 1..Len(src) : LET j == i + Len(dst) - Len(src) IN src[i] = dst[j] \/ src[i] = 1

(* the shape two operands are expanded to: right-aligned maximum *)
BTarget(d1, d2) ==
  LET n == MaxI(Len(d1), Len(d2))
      at(d, i) == LET j == i - (n - Len(d)) IN IF j >= 1 THEN d[j] ELSE 1
  IN [i \in 1..n |-> MaxI(at(d1, i), at(d2, i))]

(* two shapes can be combined by an implicitly broadcasting operation *)
BCompatible(d1, d2) == LET t == BTarget(d1, d2) IN BroadcastOK(d1, t) /\ BroadcastOK(d2, t)

(* the source multi-index a target multi-index j is copied from *)
BSource(j, src, dst) ==
  [i \in 1..Len(src) |-> IF src[i] = 1 THEN 0 ELSE j[i + Len(dst) - Len(src)]]

(* number of target positions every source element is copied to *)
BFactor(src, dst) == Prod(dst) \div Prod(src)

(* ---- index ranges (Slice / Patch) ---- *)
(* a range is <<from, to>>, half-open; <<0, 0>> or an omitted range selects the whole dimension *)

IsAll(r) == r[1] = 0 /\ r[2] = 0

(* the ranges actually used when the ranges refer to a tensor of shape dims *)
Complete(index, dims) ==
  [i \in 1..Len(dims) |-> IF i > Len(index) \/ IsAll(index[i]) THEN <<0, dims[i]>> ELSE index[i]]

RangeDims(cidx) == [i \in 1..Len(cidx) |-> cidx[i][2] - cidx[i][1]]

(* documented precondition of Slice *)
SliceIndexOK(index, dims) ==
  /\ Len(index) <= Len(dims)
  /\ \A i \in 1..Len(index) :
        \/ IsAll(index[i])
        \/ /\ index[i][1] < index[i][2]
           /\ 0 <= index[i][1] /\ index[i][1] < dims[i]
           /\ 1 <= index[i][2] /\ index[i][2] <= dims[i]

(* documented precondition of Patch (src is written into dst) *)
PatchIndexOK(index, src, dst) ==
  /\ Len(src) = Len(dst)
  /\ \A i \in 1..Len(src) : src[i] <= dst[i]
  /\ SliceIndexOK(index, dst)
  /\ \A i \in 1..Len(index) : IsAll(index[i]) \/ index[i][2] - index[i][1] = src[i]

=============================================================================
