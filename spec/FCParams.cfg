SPECIFICATION Spec
CONSTANTS MaxLen = 4
PROPERTIES HistoryFree
ACTION_CONSTRAINT Dump
CHECK_DEADLOCK FALSE
