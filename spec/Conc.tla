-------------------------------- MODULE Conc --------------------------------
(***************************************************************************)
(* Goroutines x operation footprints.                                      *)
(*                                                                         *)
(* The library has no synchronisation of its own (apart from the locked    *)
(* random source), so concurrent use is safe exactly when no operation     *)
(* writes a location another in-flight operation reads or writes.  The     *)
(* locations are, per tensor t: <<"val", t>> (shape and elements) and      *)
(* <<"ctx", t>> (the gradient context: flags, gradient, edges, and the     *)
(* tensor's pointer to it).  Footprints follow from the Autograd machine:  *)
(*   forward op / comparison   reads val and ctx of its operands, writes   *)
(*                             only the fresh result                       *)
(*   BackPropagate(r)          writes ctx of the tracked tensors it passes *)
(*                             through; reads val and ctx of those and of  *)
(*                             every operand of their producing operations *)
(*   ResetGradContext(t)       writes ctx of t                             *)
(*   random constructor        uses the random source under its lock       *)
(* A goroutine's call is in flight between Begin and End; its effect on    *)
(* the heap is applied at End (justified by NoRace).  TLC explores every   *)
(* Begin / End interleaving of NG goroutines running programs of the menu  *)
(* over a heap with a shared TRACKED parameter and a shared UNTRACKED      *)
(* tensor, under the proviso of the property (no BackPropagate / Reset on  *)
(* a tensor reachable from another goroutine's graph), and checks NoRace   *)
(* and Deterministic.  With Proviso = FALSE it finds the race.             *)
(***************************************************************************)
EXTENDS Integers, Sequences, FiniteSets, TLC, Json

CONSTANTS NG,         \* number of goroutines
          Menu,       \* the programs a goroutine may run (sequence of programs)
          Proviso     \* BOOLEAN: honour the property's proviso

VARIABLES T, prog, pc, loc, fl, path
vars == <<T, prog, pc, loc, fl, path>>
(* Heap ids are allocation order, so two interleavings that differ only in who allocated first reach states equal up   *)
(* to a renaming of ids that keeps every goroutine's own order; Resolve only uses loc[g][j], so Next is invariant under  *)
(* such renamings. The view names a tensor by (owner, position in the owner's list); `path` is output only.              *)
CName(x) == IF T[x].owner = 0 THEN <<0, x>> ELSE <<T[x].owner, CHOOSE j \in DOMAIN loc[T[x].owner] : loc[T[x].owner][j] = x>>
CRec(x) == [tracked |-> T[x].tracked, spent |-> T[x].spent, wired |-> T[x].wired, hasGrad |-> T[x].hasGrad,
            args |-> [k \in DOMAIN T[x].args |-> CName(T[x].args[k])]]
CFoot(S) == {<<e[1], CName(e[2])>> : e \in S}
View == <<prog, pc, [x \in 1..6 |-> CRec(x)], [g \in 1..NG |-> [j \in DOMAIN loc[g] |-> CRec(loc[g][j])]],
          [g \in 1..NG |-> [r |-> CFoot(fl[g].r), w |-> CFoot(fl[g].w), on |-> fl[g].on]]>>

G == 1..NG
Ids == 1..Len(T)
Shared == [tracked |-> TRUE, spent |-> FALSE, wired |-> FALSE, args |-> <<>>, hasGrad |-> FALSE, owner |-> 0]
InitHeap == <<Shared, [Shared EXCEPT !.tracked = FALSE], [Shared EXCEPT !.tracked = FALSE], [Shared EXCEPT !.tracked = FALSE],
             [Shared EXCEPT !.spent = TRUE, !.hasGrad = TRUE],
             [Shared EXCEPT !.wired = TRUE, !.args = <<1>>]>>     \* 1: shared tracked parameter, 2: shared untracked tensor (from a constructor), 3: shared untracked RESULT of an operation, never used before, 4: shared untracked result of a COMPARISON, never used before, 5: a tracked leaf that was back-propagated (two contributions) before the goroutines start; its gradient has not been read yet, 6: a shared tracked INTERIOR tensor (computed from the parameter before the goroutines start; forward use only, as the proviso demands)

(* a slot <<"s", i>> is shared tensor i; <<"l", j>> is the j-th tensor this goroutine created *)
Resolve(g, slot) == IF slot[1] = "s" THEN slot[2] ELSE loc[g][slot[2]]

Edges(y) == IF T[y].wired THEN {<<y, k>> : k \in DOMAIN T[y].args} ELSE {}
RECURSIVE Reach(_)
Reach(r) == IF ~T[r].tracked THEN {} ELSE {r} \cup UNION {Reach(T[r].args[k]) : k \in (IF T[r].wired THEN DOMAIN T[r].args ELSE {})}
RECURSIVE Anc(_)
Anc(z) == {z} \cup UNION {Anc(T[z].args[k]) : k \in (IF T[z].wired THEN DOMAIN T[z].args ELSE {})}

Instr(g) == prog[g][pc[g]]
Running(g) == pc[g] <= Len(prog[g])

(* the footprint of goroutine g's next call on the current heap *)
Footprint(g) ==
  LET i == Instr(g)
  IN CASE i[1] = "leaf" -> [r |-> {}, w |-> {}]
       [] i[1] \in {"op", "cmp"} ->
            LET a == {Resolve(g, i[2][k]) : k \in DOMAIN i[2]}
            IN [r |-> {<<"val", x>> : x \in a} \cup {<<"ctx", x>> : x \in a}, w |-> {}]
       [] i[1] = "bp" ->
            LET R == Reach(Resolve(g, i[2]))
                ops == UNION {{T[y].args[k] : k \in DOMAIN T[y].args} : y \in {y \in R : T[y].wired}}
            IN [r |-> {<<"val", x>> : x \in R \cup ops} \cup {<<"ctx", x>> : x \in R \cup ops \cup {Resolve(g, i[2])}},
                w |-> {<<"ctx", x>> : x \in R}]
       [] i[1] = "reset" -> [r |-> {}, w |-> {<<"ctx", Resolve(g, i[2])>>}]
       [] i[1] = "rand" -> [r |-> {}, w |-> {}]          \* the random source is used under its own lock
       [] i[1] = "grad" -> [r |-> {<<"ctx", Resolve(g, i[2])>>, <<"val", Resolve(g, i[2])>>}, w |-> {}]      \* reading a gradient is a read

(* the proviso: BackPropagate / Reset only on tensors no other goroutine's graph can reach *)
Private(g, S) == \A x \in S : /\ T[x].owner = g
                              /\ \A z \in Ids : T[z].owner # g /\ T[z].owner # 0 => x \notin Anc(z)
Allowed(g) ==
  LET i == Instr(g)
  IN ~Proviso \/ CASE i[1] = "bp" -> Private(g, Reach(Resolve(g, i[2])))
                   [] i[1] = "reset" -> Private(g, {Resolve(g, i[2])})
                   [] OTHER -> TRUE

NoFlight == [r |-> {}, w |-> {}, on |-> FALSE]

Begin(g) ==
  /\ Running(g) /\ ~fl[g].on /\ Allowed(g)
  /\ fl' = [fl EXCEPT ![g] = Footprint(g) @@ [on |-> TRUE]]
  /\ UNCHANGED <<T, prog, pc, loc>>

NewT(g, tr, sp, wired, args) == [tracked |-> tr, spent |-> sp, wired |-> wired, args |-> args, hasGrad |-> FALSE, owner |-> g]

Effect(g) ==
  LET i == Instr(g)
  IN CASE i[1] = "leaf" -> /\ T' = Append(T, NewT(g, i[2], FALSE, FALSE, <<>>)) /\ loc' = [loc EXCEPT ![g] = Append(@, Len(T) + 1)]
       [] i[1] = "rand" -> /\ T' = Append(T, NewT(g, FALSE, FALSE, FALSE, <<>>)) /\ loc' = [loc EXCEPT ![g] = Append(@, Len(T) + 1)]
       [] i[1] = "cmp" -> /\ T' = Append(T, NewT(g, FALSE, FALSE, FALSE, <<>>)) /\ loc' = [loc EXCEPT ![g] = Append(@, Len(T) + 1)]
       [] i[1] = "grad" -> /\ T' = Append(T, NewT(g, FALSE, TRUE, FALSE, <<>>)) /\ loc' = [loc EXCEPT ![g] = Append(@, Len(T) + 1)]     \* computed from a gradient tensor, which stems from spent tensors
       [] i[1] = "op" ->
            LET a == [k \in DOMAIN i[2] |-> Resolve(g, i[2][k])]
                sp == \E k \in DOMAIN a : T[a[k]].spent
                tr == ~sp /\ \E k \in DOMAIN a : T[a[k]].tracked
            IN /\ T' = Append(T, NewT(g, tr, sp, tr, a)) /\ loc' = [loc EXCEPT ![g] = Append(@, Len(T) + 1)]
       [] i[1] = "bp" ->
            LET R == Reach(Resolve(g, i[2]))
            IN /\ T' = [n \in Ids |-> IF n \in R THEN [T[n] EXCEPT !.spent = TRUE, !.hasGrad = TRUE] ELSE T[n]]
               /\ UNCHANGED loc
       [] i[1] = "reset" ->
            /\ T' = [T EXCEPT ![Resolve(g, i[2])] = [@ EXCEPT !.tracked = i[3], !.spent = FALSE, !.wired = FALSE, !.hasGrad = FALSE, !.args = <<>>]]
            /\ UNCHANGED loc

End(g) ==
  /\ fl[g].on
  /\ Effect(g)
  /\ fl' = [fl EXCEPT ![g] = NoFlight]
  /\ pc' = [pc EXCEPT ![g] = @ + 1]
  /\ UNCHANGED prog

Init == /\ T = InitHeap
        /\ prog \in [G -> {Menu[m] : m \in DOMAIN Menu}]
        /\ pc = [g \in G |-> 1] /\ loc = [g \in G |-> <<>>] /\ fl = [g \in G |-> NoFlight]
        /\ path = <<>>
Next == \E g \in G : \/ Begin(g) /\ path' = Append(path, <<"begin", g>>)
                     \/ End(g) /\ path' = Append(path, <<"end", g>>)
Spec == Init /\ [][Next]_vars

(* ---- C20 ---- *)
NoRace == \A g, h \in G : g # h /\ fl[g].on /\ fl[h].on => fl[g].w \cap (fl[h].r \cup fl[h].w) = {}

(* every goroutine's tensors end up exactly as when its program runs alone on the initial heap *)
LocalView(g) == [j \in DOMAIN loc[g] |-> [tracked |-> T[loc[g][j]].tracked, spent |-> T[loc[g][j]].spent,
                                          wired |-> T[loc[g][j]].wired, hasGrad |-> T[loc[g][j]].hasGrad]]
(* the sequential meaning of a program, by the same rules, on a private copy of the initial heap *)
RECURSIVE SeqRun(_, _, _, _)
SeqRun(p, i, H, L) ==
  IF i > Len(p) THEN [H |-> H, L |-> L]
  ELSE LET ins == p[i]
           res(slot) == IF slot[1] = "s" THEN slot[2] ELSE L[slot[2]]
           RECURSIVE R(_)
           R(r) == IF ~H[r].tracked THEN {} ELSE {r} \cup UNION {R(H[r].args[k]) : k \in (IF H[r].wired THEN DOMAIN H[r].args ELSE {})}
           new(tr, sp, w, a) == [tracked |-> tr, spent |-> sp, wired |-> w, args |-> a, hasGrad |-> FALSE, owner |-> 9]
       IN CASE ins[1] \in {"leaf"} -> SeqRun(p, i + 1, Append(H, new(ins[2], FALSE, FALSE, <<>>)), Append(L, Len(H) + 1))
            [] ins[1] = "grad" -> SeqRun(p, i + 1, Append(H, new(FALSE, TRUE, FALSE, <<>>)), Append(L, Len(H) + 1))
            [] ins[1] \in {"rand", "cmp"} -> SeqRun(p, i + 1, Append(H, new(FALSE, FALSE, FALSE, <<>>)), Append(L, Len(H) + 1))
            [] ins[1] = "op" -> LET a == [k \in DOMAIN ins[2] |-> res(ins[2][k])]
                                    sp == \E k \in DOMAIN a : H[a[k]].spent
                                    tr == ~sp /\ \E k \in DOMAIN a : H[a[k]].tracked
                                IN SeqRun(p, i + 1, Append(H, new(tr, sp, tr, a)), Append(L, Len(H) + 1))
            [] ins[1] = "bp" -> LET RR == R(res(ins[2]))
                                IN SeqRun(p, i + 1, [n \in DOMAIN H |-> IF n \in RR THEN [H[n] EXCEPT !.spent = TRUE, !.hasGrad = TRUE] ELSE H[n]], L)
            [] ins[1] = "reset" -> SeqRun(p, i + 1, [H EXCEPT ![res(ins[2])] = [@ EXCEPT !.tracked = ins[3], !.spent = FALSE, !.wired = FALSE, !.hasGrad = FALSE, !.args = <<>>]], L)
SeqView(p) == LET s == SeqRun(p, 1, InitHeap, <<>>)
              IN [j \in DOMAIN s.L |-> [tracked |-> s.H[s.L[j]].tracked, spent |-> s.H[s.L[j]].spent,
                                        wired |-> s.H[s.L[j]].wired, hasGrad |-> s.H[s.L[j]].hasGrad]]
Finished == \A g \in G : ~Running(g)
Deterministic == Finished => \A g \in G : LocalView(g) = SeqView(prog[g])
(* the shared tensors are never written under the proviso *)
SharedUntouched == Proviso => T[1] = InitHeap[1] /\ T[2] = InitHeap[2] /\ T[3] = InitHeap[3] /\ T[4] = InitHeap[4] /\ T[5] = InitHeap[5] /\ T[6] = InitHeap[6]

=============================================================================
