------------------------------ MODULE FCParams ------------------------------
(***************************************************************************)
(* C16, history part: "the pointers returned by Weights() address the very *)
(* tensors used by the next Forward ... any sequence of parameter          *)
(* replacements through the Weights() pointers followed by Forward".       *)
(*                                                                         *)
(* The layer's parameters are two cells W and B.  They can be replaced     *)
(* through the pointers of the FIRST Weights() call ever made, through the *)
(* pointers of the MOST RECENT call, or by assigning the exported field;   *)
(* all three denote the same cell.  Forward reads the cells at the moment  *)
(* it is called - whatever happened before (earlier Forward calls, earlier *)
(* Weights() calls, earlier replacements).  Every history up to MaxLen     *)
(* actions is a state (the history itself is the state: nothing is         *)
(* abstracted, so any order-dependent caching in the implementation has a  *)
(* witness); each Forward is dumped with its expected output.              *)
(***************************************************************************)
EXTENDS Emit

CONSTANTS MaxLen

VARIABLES W, B, hist
vars == <<W, B, hist>>

Out == 2
X == [dims |-> <<2, 2>>, data |-> <<QI(1), QI(-2), Half, QI(3)>>]
WVer(v) == [dims |-> <<Out>>, data |-> <<QI(3 * v + 1), QI(-v - 2)>>]
BVer(v) == [dims |-> <<Out>>, data |-> <<Q(v, 2), QI(v - 1)>>]

(* a slot may also hold the tensor OBJECT that used to sit in the other slot: encoded as -1 - (that slot's version) *)
WTensor(w) == IF w >= 0 THEN WVer(w) ELSE BVer(-1 - w)
BTensor(b) == IF b >= 0 THEN BVer(b) ELSE WVer(-1 - b)

Vias == {"first", "last", "field"}

Init == W = 0 /\ B = 0 /\ hist = <<>>
Do(a) == Len(hist) < MaxLen /\ hist' = Append(hist, a)

GetWeights == Do(<<"weights">>) /\ UNCHANGED <<W, B>>
SetW(v, via) == Do(<<"setW", v, via>>) /\ W' = v /\ UNCHANGED B
SetB(v, via) == Do(<<"setB", v, via>>) /\ B' = v /\ UNCHANGED W
(* the two parameter tensors change places / the bias tensor is also installed as the weight - through the pointers *)
SwapWB(via) == Do(<<"swap", via>>) /\ W' = -1 - B /\ B' = -1 - W
CopyBToW(via) == Do(<<"copyBW", via>>) /\ W' = -1 - B /\ UNCHANGED B
Forward == Do(<<"forward">>) /\ UNCHANGED <<W, B>>
(* a Forward with an input of rank 3 (the precondition is rank 2): rejected, nothing changes *)
BadForward == Do(<<"badforward">>) /\ UNCHANGED <<W, B>>
(* the caller overwrites the entries of the list the last Weights() call returned (the list is the caller's): nothing changes *)
ScribbleList == Do(<<"scribble">>) /\ UNCHANGED <<W, B>>

Next == \/ GetWeights
        \/ \E v \in {1, 2}, via \in Vias : SetW(v, via)
        \/ \E via \in {"first", "last"} : SetB(1, via)
        \/ \E via \in {"first", "last"} : SwapWB(via) \/ CopyBToW(via)
        \/ Forward
        \/ BadForward
        \/ ScribbleList
Spec == Init /\ [][Next]_vars

(* what the Forward that has just been appended must return *)
Expected == FC(WTensor(W), BTensor(B), X)
IsForward == Len(hist') > Len(hist) /\ hist'[Len(hist')] = <<"forward">>
Dump == IsForward => PrintT(ToJson([p |-> hist', y |-> EncSeq(FC(WTensor(W'), BTensor(B'), X).data), w |-> W', b |-> B']))

(* the value only depends on the current cells, never on the history *)
HistoryFree == [][IsForward => FC(WTensor(W'), BTensor(B'), X) = FC(WTensor(W), BTensor(B), X)]_vars
=============================================================================
