------------------------------ MODULE Gen_C15 ------------------------------
(***************************************************************************)
(* C15: activation gradients.  The input is a tracked leaf, or the         *)
(* interior tensor x.Scale(3) of a deeper graph; upstream weighting g.     *)
(* Expected: the derivative of the activation's DEFINITION.  At exactly 0  *)
(* Relu / LeakyRelu accept every value between the one-sided derivatives   *)
(* (the harness evaluates both one-sided readings of the dmax / dmin       *)
(* selectors).  Softmax for every dim; its cases carry the "asis"          *)
(* expectation of finding D2 (the normaliser is expanded along dim).       *)
(* TLC checks below that the derivative of the Softmax definition is the   *)
(* closed form p_i (g_i - sum_j p_j g_j).                                  *)
(***************************************************************************)
EXTENDS Emit

Grid == IF Thorough THEN Shapes(3, 3) \cup Shapes(4, 2)
        ELSE Shapes(2, 2) \cup {<<3>>, <<2, 3>>, <<2, 1, 2>>, <<1, 2, 1, 2>>, <<6>>, <<4, 5>>, <<2, 5, 3>>, <<17>>, <<18, 2>>}
GridSeq == SetToSeq(Grid)
Slopes == <<Q(1, 100), Zero, Half, QI(-1), QI(3), Q(1, 100000000), QI(-2)>>       \* a slope of 1e-8: an implementation that forms 1 +- m loses it
Acts == <<"relu", "sigmoid", "tanhact">>

ElemDescs == Flatten2([i \in DOMAIN GridSeq |-> Flatten2([deep \in 1..2 |->
   [a \in DOMAIN Acts |-> <<Acts[a], GridSeq[i], deep = 2, One, FALSE>>]
   \o [m \in DOMAIN Slopes |-> <<"leakyrelu", GridSeq[i], deep = 2, Slopes[m], m = 1>>]])])
SoftDescs == Flatten2([i \in DOMAIN GridSeq |-> Flatten2([deep \in 1..2 |->
   [d \in 1..Len(GridSeq[i]) |-> <<"softmax", GridSeq[i], deep = 2, d - 1>>]])])
Descs == MyCases(ElemDescs \o SoftDescs)

XDom(act) == CASE act \in {"relu", "leakyrelu"} -> "zero,any,ties,nearzero"
               [] act = "softmax" -> "any,big"
               [] OTHER -> "big,zero,any"

Build(d) ==
  LET act == d[1]
      par == IF act = "leakyrelu" THEN [k |-> d[4], nilconf |-> d[5]] ELSE IF act = "softmax" THEN [dim |-> d[4], nilconf |-> FALSE] ELSE NoPar
  IN IF d[3]
     THEN (* interior input: x -> x.Scale(3) -> act -> * g *)
          MkCaseD("c15", act, <<In("x", d[2], TRUE), In("g", d[2], FALSE)>>, <<IF act = "softmax" THEN "small" ELSE XDom(act), "any">>,
                  <<Ins("scale", [k |-> QI(3)], <<1>>), Ins(act, par, <<3>>), Ins("mul", NoPar, <<4, 2>>)>>, <<4>>, 5, act \in {"relu", "leakyrelu"})
     ELSE MkCaseD("c15", act, <<In("x", d[2], TRUE), In("g", d[2], FALSE)>>, <<XDom(act), "any">>,
                  <<Ins(act, par, <<1>>), Ins("mul", NoPar, <<3, 2>>)>>, <<3>>, 4, act \in {"relu", "leakyrelu"})

Cases == [i \in DOMAIN Descs |-> Build(Descs[i])]

(* ---- closed forms on the specification ---- *)
(* Softmax: with e^{x_i} replaced by the positive literal i + 1 (E below), the derivative of the *)
(* definition folds to a rational and must equal p_i (g_i - sum_j p_j g_j)                       *)
RECURSIVE E(_)
E(v) == CASE v.k = "a" /\ v.f = "exp" -> QI(v.a[1].i + 1)
          [] v.k = "s" /\ v.t = "g" -> Q(2 * v.i - 3, 2)
          [] v.k = "a" /\ v.f = "div" -> Div(E(v.a[1]), E(v.a[2]))
          [] v.k = "a" /\ v.f = "add" -> Add(E(v.a[1]), E(v.a[2]))
          [] v.k = "a" /\ v.f = "sub" -> Sub(E(v.a[1]), E(v.a[2]))
          [] v.k = "a" /\ v.f = "mul" -> Mul(E(v.a[1]), E(v.a[2]))
          [] v.k = "a" /\ v.f = "neg" -> Neg(E(v.a[1]))
          [] OTHER -> v
ASSUME \A n \in 1..4 :
         LET inputs == <<In("x", <<n>>, TRUE), In("g", <<n>>, FALSE)>>
             code == <<Ins("softmax", [dim |-> 0], <<1>>), Ins("mul", NoPar, <<3, 2>>)>>
             gdef == GradDef(inputs, code, 4, 1)
             tot == SumV([j \in 1..n |-> QI(j + 1)])
             p == [i \in 1..n |-> Div(QI(i + 1), tot)]
             g == [i \in 1..n |-> Q(2 * i - 3, 2)]
             dotpg == SumV([j \in 1..n |-> Mul(p[j], g[j])])
         IN [i \in 1..n |-> E(gdef[i])] = [i \in 1..n |-> Mul(p[i], Sub(g[i], dotpg))]
(* Sigmoid: s(1 - s) with e^{-x} replaced by a literal; Tanh: syntactically 1 / cosh^2, which is the statement's        *)
(* 1 - tanh^2 (cosh^2 - sinh^2 = 1) in the form that keeps its relative accuracy where tanh x rounds to 1 (Val!DFn)      *)
ASSUME LET gdef == GradDef(<<In("x", <<1>>, TRUE)>>, <<Ins("tanhact", NoPar, <<1>>)>>, 2, 1)
       IN gdef[1] = Inv(Mul(Fn("cosh", Sym("x", 1)), Fn("cosh", Sym("x", 1))))
ASSUME LET gdef == GradDef(<<In("x", <<1>>, TRUE)>>, <<Ins("sigmoid", NoPar, <<1>>)>>, 2, 1)
           RECURSIVE F(_)
           F(v) == CASE v.k = "a" /\ v.f = "exp" -> QI(3)
                     [] v.k = "a" /\ v.f = "div" -> Div(F(v.a[1]), F(v.a[2]))
                     [] v.k = "a" /\ v.f = "add" -> Add(F(v.a[1]), F(v.a[2]))
                     [] v.k = "a" /\ v.f = "sub" -> Sub(F(v.a[1]), F(v.a[2]))
                     [] v.k = "a" /\ v.f = "mul" -> Mul(F(v.a[1]), F(v.a[2]))
                     [] v.k = "a" /\ v.f = "neg" -> Neg(F(v.a[1]))
                     [] OTHER -> v
           s == Q(1, 4)             \* 1 / (1 + 3)
       IN F(gdef[1]) = Mul(s, Sub(One, s))

ASSUME Write(Cases)
ASSUME PrintT(<<"generated", Len(Cases)>>)
=============================================================================
