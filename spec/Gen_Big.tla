------------------------------ MODULE Gen_Big ------------------------------
(***************************************************************************)
(* Cases on LARGE tensors (1000 - 16000 elements), emitted with one        *)
(* parametric term per result (spec/Big.tla) instead of one term per       *)
(* element.  QV_FAM selects the property the cases belong to (c03 element- *)
(* wise, c04 MatMul, c05 reductions, c07 gradient of a broadcast bias,     *)
(* c14 activations, c17 SGD).  Before anything is emitted TLC checks, on    *)
(* the small grid and for every position, that each template unrolls to    *)
(* exactly the element the declarative definition gives (TemplatesAgree).  *)
(***************************************************************************)
EXTENDS Emit, Big

Fam == EnvOr("QV_FAM", "c03")

BigShapes == << <<66, 64>>, <<5, 16, 16>>, <<67, 63>>, <<4100, 2>>, <<1030>>, <<7, 10, 15>>, <<5, 4, 4, 4, 4>> >>
TOut(node, dims, tmpl) == [node |-> node, dims |-> dims, tmpl |-> Enc(tmpl)]
BaseCase(fam, name, inputs, doms, code) ==
  [fam |-> fam, name |-> name, ok |-> TRUE, ties |-> TRUE, code |-> EncCode(code),
   inputs |-> [i \in DOMAIN inputs |-> EncIn(inputs[i], doms[i])]]

(* ---- c03 / c14: element-wise ---- *)
UnSpecs == << <<"scale", Half>>, <<"pow", Two>>, <<"tanh", One>>, <<"exp", One>>, <<"sin", One>> >>
C03Cases ==
  Flatten2([s \in DOMAIN BigShapes |->
     [u \in DOMAIN UnSpecs |->
        BaseCase("c03", "big-" \o UnSpecs[u][1], <<In("a", BigShapes[s], FALSE)>>, <<"small">>, <<Ins(UnSpecs[u][1], [k |-> UnSpecs[u][2]], <<1>>)>>)
        @@ [outs |-> <<TOut(2, BigShapes[s], TUnary(UnSpecs[u][1], UnSpecs[u][2]))>>]]
     \o [b \in 1..5 |->
        LET op == <<"add", "mul", "sub", "gt", "elmax">>[b]
        IN BaseCase("c03", "big-" \o op, <<In("a", BigShapes[s], FALSE), In("b", BigShapes[s], FALSE)>>, <<"any", "any">>, <<Ins(op, NoPar, <<1, 2>>)>>)
           @@ [outs |-> <<TOut(3, BigShapes[s], TBinary(op, BigShapes[s], BigShapes[s]))>>]]])
  \o << BaseCase("c03", "big-add-suffix", <<In("a", <<70, 64>>, FALSE), In("b", <<64>>, FALSE)>>, <<"any", "any">>, <<Ins("add", NoPar, <<1, 2>>)>>)
        @@ [outs |-> <<TOut(3, <<70, 64>>, TBinary("add", <<70, 64>>, <<64>>))>>],
        BaseCase("c03", "big-div-suffix", <<In("a", <<9, 11, 12>>, FALSE), In("b", <<11, 12>>, FALSE)>>, <<"any", "nz">>, <<Ins("div", NoPar, <<1, 2>>)>>)
        @@ [outs |-> <<TOut(3, <<9, 11, 12>>, TBinary("div", <<9, 11, 12>>, <<11, 12>>))>>] >>

Acts == <<"relu", "sigmoid", "tanhact">>
C14Cases ==
  Flatten2([s \in DOMAIN BigShapes |-> [a \in DOMAIN Acts |->
     BaseCase("c14", "big-" \o Acts[a], <<In("a", BigShapes[s], FALSE)>>, <<"big,any">>, <<Ins(Acts[a], NoPar, <<1>>)>>)
     @@ [outs |-> <<TOut(2, BigShapes[s], TUnary(IF Acts[a] = "tanhact" THEN "tanh" ELSE Acts[a], One))>>]]])

(* long Softmax fibres with inputs at the documented bound 700 (e^700 * 8200 is still finite) next to fibres far below it *)
SoftSpecs == << <<<<2, 8200>>, 1>>, <<<<8200>>, 0>>, <<<<3, 2100, 2>>, 1>>, <<<<9000, 2>>, 0>> >>
C14SoftCases == [s \in DOMAIN SoftSpecs |->
   LET d == SoftSpecs[s][1] dim == SoftSpecs[s][2]
   IN BaseCase("c14", "big-softmax", <<In("a", d, FALSE)>>, <<"halves700,small,halves700">>, <<Ins("softmax", [dim |-> dim, nilconf |-> FALSE], <<1>>)>>)
      @@ [outs |-> <<TOut(2, d, TSoftmax(d, dim))>>, props |-> <<"nonneg", "finite">>]]

(* ---- c05: reductions ---- *)
WholeShapes == << <<64, 64>>, <<1, 5000>>, <<4100, 2>>, <<4, 4, 4, 4, 4, 4>>, <<1100>> >>
WholeOps == <<"sum", "max", "min", "avg", "mean", "var", "std">>
AlongSpecs == << <<<<4100, 2>>, 0>>, <<<<3, 1500>>, 1>>, <<<<2, 1100, 2>>, 1>>, <<<<70, 64>>, 0>>, <<<<5, 16, 16>>, 2>> >>
AlongOpsSeq == <<"sumalong", "maxalong", "minalong", "avgalong", "varalong", "stdalong", "meanalong">>
C05Cases ==
  [s \in DOMAIN WholeShapes |->
     BaseCase("c05", "big-whole", <<In("a", WholeShapes[s], FALSE)>>, <<"any,offset,any">>, <<>>)
     @@ [scal |-> [f \in DOMAIN WholeOps |-> [op |-> WholeOps[f], node |-> 1, val |-> Enc(TWhole(WholeOps[f], WholeShapes[s]))]]]]
  \o Flatten2([s \in DOMAIN AlongSpecs |-> [f \in DOMAIN AlongOpsSeq |->
        LET dims == AlongSpecs[s][1] dim == AlongSpecs[s][2]
        IN BaseCase("c05", "big-" \o AlongOpsSeq[f], <<In("a", dims, FALSE)>>, <<"any,noffset,any">>, <<Ins(AlongOpsSeq[f], [dim |-> dim], <<1>>)>>)
           @@ [outs |-> <<TOut(2, DropDim(dims, dim + 1), TAlong(AlongStat(AlongOpsSeq[f]), dims, dim))>>]]])

(* ---- c04: MatMul ---- *)
MMSpecs == << <<70, 70, 3>>, <<40, 33, 35>>, <<2, 1100, 2>>, <<130, 9, 4>>, <<12, 9, 40>> >>
C04Cases == [s \in DOMAIN MMSpecs |->
   LET m == MMSpecs[s][1] n == MMSpecs[s][2] kk == MMSpecs[s][3]
   IN BaseCase("c04", "big-matmul", <<In("a", <<m, n>>, FALSE), In("b", <<n, kk>>, FALSE)>>, <<"any", "any">>, <<Ins("matmul", NoPar, <<1, 2>>)>>)
      @@ [outs |-> <<TOut(3, <<m, kk>>, TMatMul(m, n, kk))>>]]

(* ---- c07: gradient of a bias broadcast over a large batch ---- *)
BiasSpecs == << <<70, 64>>, <<5, 1100>>, <<1030, 4>>, <<67, 63>> >>
C07Cases == [s \in DOMAIN BiasSpecs |->
   LET B == BiasSpecs[s][1] O == BiasSpecs[s][2]
   IN BaseCase("c07", "big-bias-add", <<In("x", <<B, O>>, FALSE), In("b", <<O>>, TRUE), In("g", <<B, O>>, FALSE)>>, <<"any", "any", "any">>,
               <<Ins("add", NoPar, <<1, 2>>), Ins("mul", NoPar, <<4, 3>>)>>)
      @@ [root |-> 5, ties |-> FALSE, nograd |-> <<1, 3>>, dev |-> <<"broadcast_grad_mean">>,
          grads |-> <<TOut(2, <<O>>, TBiasGrad(B, O))>>, asis |-> <<TOut(2, <<O>>, TBiasGradAsIs(B, O))>>]]

(* ---- c17: SGD on a large weight ---- *)
SgdShapes == << <<66, 64>>, <<67, 63>>, <<5, 5, 5, 5, 7>>, <<4100>> >>
C17Cases == [s \in DOMAIN SgdShapes |->
   LET d == SgdShapes[s]
   IN BaseCase("c17", "big-sgd", <<In("w", d, TRUE), In("c", d, FALSE)>>, <<"any", "any">>, <<Ins("mul", NoPar, <<1, 2>>)>>)
      @@ [root |-> 3, ties |-> FALSE, nograd |-> <<2>>, grads |-> <<TOut(1, d, SymAt("c", P))>>,
          post |-> <<EncIns(Ins("sgd", [k |-> Half, nilconf |-> FALSE], <<1>>))>>, postouts |-> <<TOut(4, d, TSgd(Half))>>]]

(* ---- c06: data movement and deterministic constructors ---- *)
Rng(dims) == [k \in DOMAIN dims |-> <<0, dims[k]>>]
C06Cases ==
  LET one(name, dims, ins, odims, tmpl) ==
        BaseCase("c06", "big-" \o name, <<In("a", dims, FALSE)>>, <<"iota">>, <<ins>>) @@ [outs |-> <<TOut(2, odims, tmpl)>>]
      tr(d) == one("transpose", d, Ins("transpose", NoPar, <<1>>), SwapLast2(d), TTranspose(d))
      rs(d, sh) == one("reshape", d, Ins("reshape", [shape |-> sh], <<1>>), sh, TSame("a"))
      dm(op, d, dim, od) == one(op, d, Ins(op, [dim |-> dim], <<1>>), od, TSame("a"))
      sl(d, r) == one("slice", d, Ins("slice", [index |-> r], <<1>>), SliceDims(r), TSlice(d, r))
      bc(d, t) == one("broadcast", d, Ins("broadcast", [shape |-> t], <<1>>), t, TBroadcastTo(d, t))
      pa(d, r) == BaseCase("c06", "big-patch", <<In("a", d, FALSE), In("u", SliceDims(r), FALSE)>>, <<"iota", "small">>, <<Ins("patch", [index |-> r], <<1, 2>>)>>)
                  @@ [outs |-> <<TOut(3, d, TPatch(d, r))>>]
      cc(da, db, dim) == BaseCase("c06", "big-concat", <<In("a", da, FALSE), In("b", db, FALSE)>>, <<"iota", "small">>, <<Ins("concat", [dim |-> dim - 1], <<1, 2>>)>>)
                  @@ [outs |-> <<TOut(3, [da EXCEPT ![dim] = da[dim] + db[dim]], TConcat(da, db, dim))>>]
      ctor(op, par, od, tmpl) == BaseCase("c06", "big-" \o op, <<>>, <<>>, <<Ins(op, par, <<>>)>>) @@ [outs |-> <<TOut(1, od, tmpl)>>]
  IN << tr(<<66, 64>>), tr(<<5, 16, 16>>), tr(<<3, 40, 35>>), tr(<<1030, 1>>), tr(<<2, 2, 33, 17>>), tr(<<1, 4100>>),
        rs(<<66, 64>>, <<64, 66>>), rs(<<4100, 2>>, <<2, 4100>>), rs(<<5, 16, 16>>, <<1280>>), rs(<<4200>>, <<6, 7, 10, 10>>),
        dm("flatten", <<5, 16, 16>>, 0, <<1280>>), dm("flatten", <<5, 16, 16>>, 1, <<5, 256>>), dm("squeeze", <<1, 4100>>, 0, <<4100>>),
        dm("squeeze", <<66, 1, 64>>, 1, <<66, 64>>), dm("unsqueeze", <<66, 64>>, 0, <<1, 66, 64>>), dm("unsqueeze", <<66, 64>>, 2, <<66, 64, 1>>),
        dm("unsqueeze", <<4100>>, 1, <<4100, 1>>),
        sl(<<70, 64>>, <<<<3, 69>>, <<1, 64>>>>), sl(<<5, 16, 16>>, <<<<0, 5>>, <<2, 16>>, <<0, 15>>>>), sl(<<4200>>, <<<<7, 4190>>>>),
        sl(<<70, 64>>, Rng(<<70, 64>>)), sl(<<2, 2100>>, <<<<1, 2>>, <<0, 2100>>>>), sl(<<1100, 4>>, <<<<0, 1100>>, <<3, 4>>>>),
        bc(<<64>>, <<70, 64>>), bc(<<16, 1>>, <<5, 16, 16>>), bc(<<1, 1100>>, <<4, 1100>>), bc(<<1>>, <<4100>>), bc(<<3, 1, 20>>, <<2, 3, 35, 20>>),
        pa(<<70, 64>>, <<<<2, 68>>, <<3, 63>>>>), pa(<<4200>>, <<<<50, 4150>>>>), pa(<<5, 16, 16>>, Rng(<<5, 16, 16>>)), pa(<<5, 16, 16>>, <<<<1, 5>>, <<0, 16>>, <<0, 16>>>>),
        pa(<<1100, 4>>, <<<<0, 1100>>, <<1, 2>>>>),
        cc(<<40, 64>>, <<33, 64>>, 1), cc(<<66, 30>>, <<66, 40>>, 2), cc(<<5, 16, 8>>, <<5, 16, 9>>, 3), cc(<<2100>>, <<2100>>, 1), cc(<<1, 4100>>, <<1, 4100>>, 1),
        ctor("eye", [dim |-> 33], <<33, 33>>, TEye(33)), ctor("eye", [dim |-> 70], <<70, 70>>, TEye(70)),
        ctor("full", [shape |-> <<70, 64>>, k |-> Q(-7, 2)], <<70, 64>>, Q(-7, 2)), ctor("zeros", [shape |-> <<5, 16, 16, 4>>], <<5, 16, 16, 4>>, Zero),
        ctor("ones", [shape |-> <<4100>>], <<4100>>, One),
        \* the constant -0.0: no rational literal carries a sign of zero, so the term is the unfolded application neg(0)
        [outs |-> <<TOut(1, <<3, 2>>, [k |-> "a", f |-> "neg", a |-> <<Zero>>]) @@ [signed |-> TRUE]>>] @@ ctor("full", [shape |-> <<3, 2>>, k |-> Zero, negzero |-> TRUE], <<3, 2>>, Zero),
        [outs |-> <<TOut(1, <<>>, [k |-> "a", f |-> "neg", a |-> <<Zero>>]) @@ [signed |-> TRUE]>>] @@ ctor("full", [shape |-> <<>>, k |-> Zero, negzero |-> TRUE], <<>>, Zero) >>

(* ---- c02: backward rules on large tensors; the root is (result * g) with g untracked, so the upstream gradient is arbitrary ---- *)
GradShapes == << <<66, 64>>, <<1030>>, <<5, 4, 4, 4, 4>>, <<4100, 2>> >>
C02Cases ==
  LET G(node, dims, tmpl) == TOut(node, dims, tmpl)
      un(d, op, kk) == BaseCase("c02", "big-grad-" \o op, <<In("a", d, TRUE), In("g", d, FALSE)>>, <<"small", "any">>,
                                <<Ins(op, [k |-> kk], <<1>>), Ins("mul", NoPar, <<3, 2>>)>>)
                       @@ [root |-> 4, ties |-> FALSE, nograd |-> <<2>>, grads |-> <<G(1, d, TGradElem(DUnary(op, kk)))>>]
      bi(d, op, doms) == BaseCase("c02", "big-grad-" \o op, <<In("a", d, TRUE), In("b", d, TRUE), In("g", d, FALSE)>>, doms,
                                <<Ins(op, NoPar, <<1, 2>>), Ins("mul", NoPar, <<4, 3>>)>>)
                       @@ [root |-> 5, ties |-> FALSE, nograd |-> <<3>>, grads |-> <<G(1, d, TGradElem(DBinary(op, "a"))), G(2, d, TGradElem(DBinary(op, "b")))>>]
      mm(m, n, kk) == BaseCase("c02", "big-grad-matmul", <<In("a", <<m, n>>, TRUE), In("b", <<n, kk>>, TRUE), In("g", <<m, kk>>, FALSE)>>, <<"any", "any", "any">>,
                                <<Ins("matmul", NoPar, <<1, 2>>), Ins("mul", NoPar, <<4, 3>>)>>)
                       @@ [root |-> 5, ties |-> FALSE, nograd |-> <<3>>, grads |-> <<G(1, <<m, n>>, TMatMulGradA(m, n, kk)), G(2, <<n, kk>>, TMatMulGradB(m, n, kk))>>]
      al(d, dim, op) == BaseCase("c02", "big-grad-" \o op, <<In("a", d, TRUE), In("g", DropDim(d, dim + 1), FALSE)>>, <<"any", "any">>,
                                <<Ins(op, [dim |-> dim], <<1>>), Ins("mul", NoPar, <<3, 2>>)>>)
                       @@ [root |-> 4, ties |-> FALSE, nograd |-> <<2>>, grads |-> <<G(1, d, TAlongGrad(AlongStat(op), d, dim))>>]
      tr(d) == BaseCase("c02", "big-grad-transpose", <<In("a", d, TRUE), In("g", SwapLast2(d), FALSE)>>, <<"any", "iota">>,
                                <<Ins("transpose", NoPar, <<1>>), Ins("mul", NoPar, <<3, 2>>)>>)
                       @@ [root |-> 4, ties |-> FALSE, nograd |-> <<2>>, grads |-> <<G(1, d, TTransposeN("g", SwapLast2(d)))>>]
      sl(d, r) == BaseCase("c02", "big-grad-slice", <<In("a", d, TRUE), In("g", SliceDims(r), FALSE)>>, <<"any", "iota">>,
                                <<Ins("slice", [index |-> r], <<1>>), Ins("mul", NoPar, <<3, 2>>)>>)
                       @@ [root |-> 4, ties |-> FALSE, nograd |-> <<2>>, grads |-> <<G(1, d, TPatchGen(d, r, Zero, LAMBDA ix : SymAt("g", ix)))>>]
      cc(da, db, dim) ==
        LET od == [da EXCEPT ![dim] = da[dim] + db[dim]]
        IN BaseCase("c02", "big-grad-concat", <<In("a", da, TRUE), In("b", db, TRUE), In("g", od, FALSE)>>, <<"any", "any", "iota">>,
                                <<Ins("concat", [dim |-> dim - 1], <<1, 2>>), Ins("mul", NoPar, <<4, 3>>)>>)
           @@ [root |-> 5, ties |-> FALSE, nograd |-> <<3>>,
               grads |-> <<G(1, da, TSliceN("g", od, [Rng(od) EXCEPT ![dim] = <<0, da[dim]>>])), G(2, db, TSliceN("g", od, [Rng(od) EXCEPT ![dim] = <<da[dim], od[dim]>>]))>>]
      pa(d, r) == BaseCase("c02", "big-grad-patch", <<In("a", d, TRUE), In("u", SliceDims(r), TRUE), In("g", d, FALSE)>>, <<"any", "any", "iota">>,
                                <<Ins("patch", [index |-> r], <<1, 2>>), Ins("mul", NoPar, <<4, 3>>)>>)
                       @@ [root |-> 5, ties |-> FALSE, nograd |-> <<3>>,
                           grads |-> <<G(1, d, TPatchGen(d, r, SymAt("g", P), LAMBDA ix : Zero)), G(2, SliceDims(r), TSliceN("g", d, r))>>]
  IN Flatten2([s \in DOMAIN GradShapes |->
        [u \in DOMAIN UnSpecs |-> un(GradShapes[s], UnSpecs[u][1], UnSpecs[u][2])]
        \o << bi(GradShapes[s], "mul", <<"any", "any", "any">>), bi(GradShapes[s], "div", <<"any", "nz", "any">>), bi(GradShapes[s], "sub", <<"any", "any", "any">>) >>])
     \o << mm(70, 70, 3), mm(40, 33, 35), mm(2, 1100, 2), mm(130, 9, 4),
           al(<<4100, 2>>, 0, "sumalong"), al(<<3, 1500>>, 1, "sumalong"), al(<<5, 16, 16>>, 1, "sumalong"),
           al(<<4100, 2>>, 0, "avgalong"), al(<<3, 1500>>, 1, "meanalong"), al(<<5, 16, 16>>, 2, "avgalong"),
           al(<<1100, 4>>, 0, "varalong"), al(<<3, 1500>>, 1, "varalong"), al(<<5, 16, 16>>, 1, "varalong"),
           tr(<<66, 64>>), tr(<<5, 16, 16>>), tr(<<3, 40, 35>>),
           sl(<<70, 64>>, <<<<3, 69>>, <<1, 64>>>>), sl(<<5, 16, 16>>, <<<<0, 5>>, <<2, 16>>, <<0, 15>>>>), sl(<<4200>>, <<<<7, 4190>>>>),
           cc(<<40, 64>>, <<33, 64>>, 1), cc(<<66, 30>>, <<66, 40>>, 2), cc(<<2100>>, <<2100>>, 1),
           pa(<<70, 64>>, <<<<2, 68>>, <<3, 63>>>>), pa(<<4200>>, <<<<50, 4150>>>>), pa(<<5, 16, 16>>, <<<<1, 5>>, <<0, 16>>, <<0, 16>>>>) >>

Cases == MyCases(CASE Fam = "c02" -> C02Cases [] Fam = "c06" -> C06Cases [] Fam = "c03" -> C03Cases [] Fam = "c14" -> C14Cases \o C14SoftCases [] Fam = "c05" -> C05Cases
                   [] Fam = "c04" -> C04Cases [] Fam = "c07" -> C07Cases [] Fam = "c17" -> C17Cases)

(* ---- the templates are checked against the declarative definitions on the small grid ---- *)
Small == Shapes(3, 2) \cup {<<3>>, <<2, 3>>, <<3, 1, 2>>}
AllRanges(d) == LET R(k) == {<<lo, hi>> : lo \in 0..(d[k] - 1), hi \in 1..d[k]} \cap {r \in (0..d[k]) \X (0..d[k]) : r[1] < r[2]}
                    RECURSIVE Build(_)
                    Build(k) == IF k > Len(d) THEN {<<>>} ELSE {<<r>> \o rest : r \in R(k), rest \in Build(k + 1)}
                IN Build(1)
UnrollAll(tmpl, n) == [p \in 1..n |-> Unroll(tmpl, ("p" :> (p - 1)), <<>>)]
(* the gradient templates against the definitional gradient (Prog!GradDef) of the program  root = op(...) * g.          *)
(* The two sides associate sums and products differently, so they are compared as VALUES under a generic rational       *)
(* assignment (all symbols get distinct rationals; transcendental applications stay symbolic and must then coincide).   *)
RatEnv(names, n) == [sy \in names \X (1..n) |-> Q(7 * sy[2] + 3 * Len(sy[1]) - 11, IF sy[1] = "g" THEN 3 ELSE IF sy[1] = "b" THEN 5 ELSE 2)]
ValOf(seq, env) == [i \in DOMAIN seq |-> Subst(seq[i], env)]
GradTemplatesAgree ==
  /\ \A d \in Small : \A u \in DOMAIN UnSpecs :
        LET inputs == <<In("a", d, TRUE), In("g", d, FALSE)>>
            code == <<Ins(UnSpecs[u][1], [k |-> UnSpecs[u][2]], <<1>>), Ins("mul", NoPar, <<3, 2>>)>>
            env == RatEnv({"a", "g"}, Prod(d))
        IN ValOf(UnrollAll(TGradElem(DUnary(UnSpecs[u][1], UnSpecs[u][2])), Prod(d)), env) = ValOf(GradDef(inputs, code, 4, 1), env)
  /\ \A d \in Small : \A op \in {"mul", "div", "sub"} :
        LET inputs == <<In("a", d, TRUE), In("b", d, TRUE), In("g", d, FALSE)>>
            code == <<Ins(op, NoPar, <<1, 2>>), Ins("mul", NoPar, <<4, 3>>)>>
            env == RatEnv({"a", "b", "g"}, Prod(d))
        IN /\ ValOf(UnrollAll(TGradElem(DBinary(op, "a")), Prod(d)), env) = ValOf(GradDef(inputs, code, 5, 1), env)
           /\ ValOf(UnrollAll(TGradElem(DBinary(op, "b")), Prod(d)), env) = ValOf(GradDef(inputs, code, 5, 2), env)
  /\ \A m \in 1..3, n \in 1..3, kk \in 1..2 :
        LET inputs == <<In("a", <<m, n>>, TRUE), In("b", <<n, kk>>, TRUE), In("g", <<m, kk>>, FALSE)>>
            code == <<Ins("matmul", NoPar, <<1, 2>>), Ins("mul", NoPar, <<4, 3>>)>>
            env == RatEnv({"a", "b", "g"}, 9)
        IN /\ ValOf(UnrollAll(TMatMulGradA(m, n, kk), m * n), env) = ValOf(GradDef(inputs, code, 5, 1), env)
           /\ ValOf(UnrollAll(TMatMulGradB(m, n, kk), n * kk), env) = ValOf(GradDef(inputs, code, 5, 2), env)
  /\ \A d \in Small : \A dim \in 0..(Len(d) - 1) : \A op \in {"sumalong", "avgalong", "varalong"} :
        (op = "varalong" => d[dim + 1] > 1) =>
        LET inputs == <<In("a", d, TRUE), In("g", DropDim(d, dim + 1), FALSE)>>
            code == <<Ins(op, [dim |-> dim], <<1>>), Ins("mul", NoPar, <<3, 2>>)>>
            env == RatEnv({"a", "g"}, Prod(d))
        IN ValOf(UnrollAll(TAlongGrad(AlongStat(op), d, dim), Prod(d)), env) = ValOf(GradDef(inputs, code, 4, 1), env)
  /\ \A d \in Small : Len(d) >= 2 =>
        LET inputs == <<In("a", d, TRUE), In("g", SwapLast2(d), FALSE)>>
            code == <<Ins("transpose", NoPar, <<1>>), Ins("mul", NoPar, <<3, 2>>)>>
        IN UnrollAll(TTransposeN("g", SwapLast2(d)), Prod(d)) = GradDef(inputs, code, 4, 1)
  /\ \A d \in Small : \A r \in AllRanges(d) :
        /\ LET inputs == <<In("a", d, TRUE), In("g", SliceDims(r), FALSE)>>
               code == <<Ins("slice", [index |-> r], <<1>>), Ins("mul", NoPar, <<3, 2>>)>>
           IN UnrollAll(TPatchGen(d, r, Zero, LAMBDA ix : SymAt("g", ix)), Prod(d)) = GradDef(inputs, code, 4, 1)
        /\ LET inputs == <<In("a", d, TRUE), In("u", SliceDims(r), TRUE), In("g", d, FALSE)>>
               code == <<Ins("patch", [index |-> r], <<1, 2>>), Ins("mul", NoPar, <<4, 3>>)>>
           IN /\ UnrollAll(TPatchGen(d, r, SymAt("g", P), LAMBDA ix : Zero), Prod(d)) = GradDef(inputs, code, 5, 1)
              /\ UnrollAll(TSliceN("g", d, r), Prod(SliceDims(r))) = GradDef(inputs, code, 5, 2)
  /\ \A d \in Small : \A dim \in DOMAIN d : \A n \in 1..2 :
        LET bd == [d EXCEPT ![dim] = n]
            od == [d EXCEPT ![dim] = d[dim] + n]
            inputs == <<In("a", d, TRUE), In("b", bd, TRUE), In("g", od, FALSE)>>
            code == <<Ins("concat", [dim |-> dim - 1], <<1, 2>>), Ins("mul", NoPar, <<4, 3>>)>>
        IN /\ UnrollAll(TSliceN("g", od, [Rng(od) EXCEPT ![dim] = <<0, d[dim]>>]), Prod(d)) = GradDef(inputs, code, 5, 1)
           /\ UnrollAll(TSliceN("g", od, [Rng(od) EXCEPT ![dim] = <<d[dim], od[dim]>>]), Prod(bd)) = GradDef(inputs, code, 5, 2)
TemplatesAgree ==
  /\ \A d \in Small : \A u \in DOMAIN UnSpecs :
        UnrollAll(TUnary(UnSpecs[u][1], UnSpecs[u][2]), Prod(d)) = Unary(UnSpecs[u][1], UnSpecs[u][2], SymT("a", d)).data
  /\ \A d \in Small : UnrollAll(TUnary("relu", One), Prod(d)) = Relu(SymT("a", d)).data
                   /\ UnrollAll(TUnary("sigmoid", One), Prod(d)) = Sigmoid(SymT("a", d)).data
  /\ \A d \in Small : \A dim \in 0..(Len(d) - 1) : UnrollAll(TSoftmax(d, dim), Prod(d)) = Softmax(SymT("a", d), dim).data
  /\ \A d \in Small : \A op \in {"add", "mul", "sub", "div", "gt", "elmax", "elmin"} :
        UnrollAll(TBinary(op, d, d), Prod(d)) = Binary(op, SymT("a", d), SymT("b", d)).data
  /\ \A d \in Small : \A k \in 1..Len(d) :                       \* b's shape a proper suffix of a's
        LET bd == SubSeq(d, k, Len(d))
        IN UnrollAll(TBinary("add", d, bd), Prod(d)) = Arith("add", SymT("a", d), SymT("b", bd)).data
  /\ \A d \in Small : \A op \in StatOps : Unroll(TWhole(op, d), <<>>, <<>>) = Reduce(op, SymT("a", d))
  /\ \A d \in Small : \A dim \in 0..(Len(d) - 1) : \A op \in StatOps :
        UnrollAll(TAlong(op, d, dim), Prod(DropDim(d, dim + 1))) = ReduceAlong(op, SymT("a", d), dim).data
  /\ \A m \in 1..3, n \in 1..3, kk \in 1..3 :
        UnrollAll(TMatMul(m, n, kk), m * kk) = MatMul(SymT("a", <<m, n>>), SymT("b", <<n, kk>>)).data
  /\ \A B \in 1..3, O \in 1..3 :                                   \* the bias gradient against the definition (Prog!GradDef)
        LET inputs == <<In("x", <<B, O>>, FALSE), In("b", <<O>>, TRUE), In("g", <<B, O>>, FALSE)>>
            code == <<Ins("add", NoPar, <<1, 2>>), Ins("mul", NoPar, <<4, 3>>)>>
            \* sums are associated differently (left fold here, by edge there): compare the values under a rational assignment
            env == [sy \in ({"x", "g"} \X (1..(B * O))) \cup ({"b"} \X (1..O)) |-> Q(7 * sy[2] - 11, IF sy[1] = "g" THEN 3 ELSE 2)]
            val(seq) == [i \in DOMAIN seq |-> Subst(seq[i], env)]
        IN /\ val(UnrollAll(TBiasGrad(B, O), O)) = val(GradDef(inputs, code, 5, 2))
           /\ val(UnrollAll(TBiasGradAsIs(B, O), O)) = val(AsIs(inputs, code, 5)[2].g)
  /\ \A d \in Small : UnrollAll(TSame("a"), Prod(d)) = Reshape(SymT("a", d), <<Prod(d)>>).data
  /\ \A d \in Small : Len(d) >= 2 => UnrollAll(TTranspose(d), Prod(d)) = Transpose(SymT("a", d)).data
  /\ \A d \in Small : \A r \in AllRanges(d) :
        /\ UnrollAll(TSlice(d, r), Prod(SliceDims(r))) = Slice(SymT("a", d), r).data
        /\ UnrollAll(TPatch(d, r), Prod(d)) = Patch(SymT("a", d), r, SymT("u", SliceDims(r))).data
  /\ \A d \in Small : \A dim \in DOMAIN d : \A n \in 1..3 :
        LET bd == [d EXCEPT ![dim] = n]
        IN UnrollAll(TConcat(d, bd, dim), Prod([d EXCEPT ![dim] = d[dim] + n])) = Concat(<<SymT("a", d), SymT("b", bd)>>, dim - 1).data
  /\ \A t \in Small : \A k \in DOMAIN t : \A mask \in SUBSET (1..(Len(t) - k + 1)) :
        LET src == [i \in 1..(Len(t) - k + 1) |-> IF i \in mask THEN 1 ELSE t[k - 1 + i]]
        IN UnrollAll(TBroadcastTo(src, t), Prod(t)) = Broadcast(SymT("a", src), t).data
  /\ \A n \in 1..4 : UnrollAll(TEye(n), n * n) = Eye(n).data
  /\ GradTemplatesAgree
  /\ \A d \in Small : UnrollAll(TSgd(Half), Prod(d)) = SGDStep(SymT("w", d), SymT("c", d), Half).data
ASSUME TemplatesAgree

ASSUME Write(Cases)
ASSUME PrintT(<<"generated", Len(Cases), "for", Fam>>)
=============================================================================
