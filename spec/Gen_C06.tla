------------------------------ MODULE Gen_C06 ------------------------------
(***************************************************************************)
(* C06: indexing, reshaping and construction move elements unchanged.      *)
(*                                                                         *)
(* Inputs are read back completely through At at every multi-index (the    *)
(* harness reads every tensor that way), so At is exercised for every      *)
(* multi-index of every shape.  Slice and Patch: every combination of      *)
(* explicit / omitted / <<0,0>> / whole-dimension ranges, every block size *)
(* and position (full product up to rank 2, 3 in the thorough tier; one    *)
(* dimension varied at a time above).  Concat: every dim, 2 and 3 operands *)
(* of differing sizes.  Reshape: every factorisation of the element count. *)
(* Flatten / Squeeze / UnSqueeze: every dim.  Broadcast: every valid       *)
(* target up to rank 5 (6).  Full / Zeros / Ones / Eye.  The harness gives  *)
(* every input the values 1, 2, 3, ... in row-major order and compares      *)
(* exactly, so a single misplaced element is visible.                      *)
(* The round-trip laws of the statement are checked on the specification   *)
(* (ASSUME) and emitted as programs.                                       *)
(***************************************************************************)
EXTENDS Emit

(* sizes beyond the small grid: loops unrolled or special-cased for a size show only here *)
Big == {<<5>>, <<7>>, <<4, 5>>, <<5, 1>>, <<1, 6>>, <<2, 4, 3>>, <<4, 1, 2, 5>>}
Grid == {<<17>>, <<9, 2>>, <<2, 11>>} \cup (IF Thorough THEN Shapes(4, 3) \cup Shapes(6, 2)
         ELSE Shapes(3, 2) \cup Shapes(2, 3) \cup {<<1, 3, 1, 2>>, <<2, 1, 1, 2, 3>>, <<2, 1, 2, 1, 1, 2>>}) \cup Big
GridSeq == SetToSeq(Grid)
FullRank == IF Thorough THEN 3 ELSE 2

(* ---- index forms ---- *)
(* ranges for one dimension of size n: <<0,0>>, whole, every proper sub-range *)
RangesOf(n) == {<<0, 0>>} \cup {r \in (0..(n - 1)) \X (1..n) : r[1] < r[2]}
RECURSIVE Indexes(_, _)
(* all index sequences of length len for dims (full product) *)
Indexes(dims, len) == IF len = 0 THEN {<<>>}
                      ELSE {Append(ix, r) : ix \in Indexes(dims, len - 1), r \in RangesOf(dims[len])}
(* every length 0..rank (omitted suffix) *)
AllIndexes(dims) == UNION {Indexes(dims, l) : l \in 0..Len(dims)}
(* one dimension varied, the others whole / <<0,0>> / omitted *)
VariedIndexes(dims) ==
  UNION {{[i \in 1..l |-> IF i = d THEN r ELSE IF (i + d) % 2 = 0 THEN <<0, 0>> ELSE <<0, dims[i]>>] : r \in RangesOf(dims[d])}
         : d \in 1..Len(dims), l \in 1..Len(dims)} 
SliceIdx(dims) == IF Len(dims) <= FullRank THEN AllIndexes(dims) ELSE {ix \in VariedIndexes(dims) : SliceIndexOK(ix, dims)} \cup {<<>>}

SliceDescs == Flatten2([i \in DOMAIN GridSeq |->
                LET s == SetToSeq(SliceIdx(GridSeq[i])) IN [j \in DOMAIN s |-> <<"slice", GridSeq[i], s[j]>>]])

(* Patch: source shapes (every size 1..n per dimension for low ranks), every valid index for them *)
SubShapes(dims) == IF Len(dims) <= FullRank THEN {s \in [1..Len(dims) -> 1..3] : \A i \in DOMAIN dims : s[i] <= dims[i]}
                   ELSE {dims} \cup {SetDim(dims, d, 1) : d \in DOMAIN dims}
PatchIdx(dims, src) == {ix \in SliceIdx(dims) : PatchIndexOK(ix, src, dims)}
PatchDescs == Flatten2([i \in DOMAIN GridSeq |->
                IF Len(GridSeq[i]) = 0 THEN << <<"patch", <<>>, <<>>, <<>>>> >>
                ELSE LET srcs == SetToSeq(SubShapes(GridSeq[i]))
                     IN Flatten2([k \in DOMAIN srcs |->
                           LET ix == SetToSeq(PatchIdx(GridSeq[i], srcs[k]))
                           IN [j \in DOMAIN ix |-> <<"patch", GridSeq[i], srcs[k], ix[j]>>]])])

ConcatDescs == Flatten2([i \in DOMAIN GridSeq |-> Flatten2([d \in 1..Len(GridSeq[i]) |->
                 LET g == GridSeq[i]
                 IN << <<"concat", <<g, SetDim(g, d, 1)>>, d - 1>>,
                       <<"concat", <<SetDim(g, d, 2), g, SetDim(g, d, 3)>>, d - 1>> >>])])

RECURSIVE Factorisations(_, _)
Factorisations(n, maxLen) == {<<n>>} \cup (IF maxLen <= 1 THEN {}
                             ELSE UNION {{<<f>> \o rest : rest \in Factorisations(n \div f, maxLen - 1)} : f \in {f \in 1..n : n % f = 0}})
ReshapeDescs == Flatten2([i \in DOMAIN GridSeq |->
                  LET n == Prod(GridSeq[i])
                      t == SetToSeq({f \in Factorisations(n, IF Thorough THEN 4 ELSE 3) \cup {<<>>} : Prod(f) = n /\ Cardinality({k \in DOMAIN f : f[k] = 1}) <= 1})
                  IN [j \in DOMAIN t |-> <<"reshape", GridSeq[i], t[j]>>]])

DimDescs == Flatten2([i \in DOMAIN GridSeq |-> LET g == GridSeq[i] IN
              [d \in 1..(Len(g) + 1) |-> <<"unsqueeze", g, d - 1>>]
              \o [d \in 1..Len(g) |-> <<"flatten", g, d - 1>>]
              \o SelectSeq([d \in 1..Len(g) |-> <<"squeeze", g, d - 1>>], LAMBDA e : g[e[3] + 1] = 1)])

(* Broadcast targets: expand size-1 dims to 2 or 3, add up to two leading dims *)
Expansions(dims) == {t \in [1..Len(dims) -> 1..3] : \A i \in DOMAIN dims : (dims[i] = 1 \/ t[i] = dims[i]) /\ (dims[i] # 1 \/ t[i] # 2 \/ i % 2 = 0)}
Leading == {<<>>, <<1>>, <<2>>, <<3, 1>>, <<1, 2>>}
BcastDescs == Flatten2([i \in DOMAIN GridSeq |->
                 IF Len(GridSeq[i]) > 4 THEN << <<"broadcast", GridSeq[i], GridSeq[i]>> >>
                 ELSE LET t == SetToSeq({l \o e : l \in Leading, e \in Expansions(GridSeq[i])})
                      IN [j \in DOMAIN t |-> <<"broadcast", GridSeq[i], t[j]>>]])

CtorDescs == [i \in DOMAIN GridSeq |-> <<"ctor", GridSeq[i], 0>>] \o [n \in 1..4 |-> <<"eye", <<>>, n>>]

(* round trips: Slice(Patch(t, i, s), ranges s covered) = s ; Slice(Concat(a, b)) = the pieces *)
RoundDescs == Flatten2([i \in DOMAIN GridSeq |->
                LET g == GridSeq[i] IN
                IF Len(g) = 0 \/ Len(g) > 4 THEN <<>>
                ELSE << <<"rt-patch", g, [k \in DOMAIN g |-> IF g[k] > 1 THEN g[k] - 1 ELSE 1]>>, <<"rt-concat", g, ((i + Seed) % Len(g))>> >>])

(* ---- chains: every sequence of three data-movement steps applied to a running tensor.  Single operations on  *)
(* fresh tensors cannot see state carried from one operation's result into the next (caches, shared storage).   *)
StepKinds == <<"flatten", "unsq0", "unsqN", "transpose", "reverse", "copy", "row", "patch-target", "patch-source", "concat", "bcast">>
(* the instructions of one step applied to node cur of shape d; base = id of the first node it creates *)
StepOf(kind, cur, d, base) ==
  LET r == Len(d) n == IF r > 0 THEN d[1] ELSE 1
  IN CASE kind = "flatten" /\ r >= 1 -> [code |-> <<Ins("flatten", [dim |-> 0], <<cur>>)>>, dims |-> <<Prod(d)>>]
       [] kind = "unsq0" -> [code |-> <<Ins("unsqueeze", [dim |-> 0], <<cur>>)>>, dims |-> <<1>> \o d]
       [] kind = "unsqN" -> [code |-> <<Ins("unsqueeze", [dim |-> r], <<cur>>)>>, dims |-> d \o <<1>>]
       [] kind = "transpose" /\ r >= 2 -> [code |-> <<Ins("transpose", NoPar, <<cur>>)>>, dims |-> SwapLast2(d)]
       [] kind = "reverse" /\ r >= 2 -> [code |-> <<Ins("reshape", [shape |-> [i \in 1..r |-> d[r + 1 - i]]], <<cur>>)>>, dims |-> [i \in 1..r |-> d[r + 1 - i]]]
       [] kind = "copy" -> [code |-> <<Ins("slice", [index |-> <<>>], <<cur>>)>>, dims |-> d]
       [] kind = "row" /\ r >= 1 /\ n >= 2 -> [code |-> <<Ins("slice", [index |-> <<<<1, n>>>>], <<cur>>)>>, dims |-> SetDim(d, 1, n - 1)]
       [] kind = "patch-target" /\ r >= 1 /\ n >= 2 ->       \* overwrite the last row of cur with its negated first row
            [code |-> <<Ins("slice", [index |-> <<<<0, 1>>>>], <<cur>>), Ins("scale", [k |-> MinusOne], <<base>>),
                        Ins("patch", [index |-> <<<<n - 1, n>>>>], <<cur, base + 1>>)>>, dims |-> d]
       [] kind = "patch-source" /\ r >= 1 ->                 \* write cur into the second half of a zeroed tensor twice its size
            [code |-> <<Ins("concat", [dim |-> 0], <<cur, cur>>), Ins("scale", [k |-> Zero], <<base>>),
                        Ins("patch", [index |-> <<<<n, 2 * n>>>>], <<base + 1, cur>>)>>, dims |-> SetDim(d, 1, 2 * n)]
       [] kind = "concat" /\ r >= 1 -> [code |-> <<Ins("concat", [dim |-> r - 1], <<cur, cur>>)>>, dims |-> SetDim(d, r, 2 * d[r])]
       [] kind = "bcast" /\ r <= 3 -> [code |-> <<Ins("broadcast", [shape |-> <<2>> \o d], <<cur>>)>>, dims |-> <<2>> \o d]
       [] OTHER -> [code |-> <<>>, dims |-> d]
RECURSIVE ChainCode(_, _, _, _, _)
ChainCode(kinds, i, cur, d, code) ==
  IF i > Len(kinds) THEN code
  ELSE LET st == StepOf(kinds[i], cur, d, 2 + Len(code))
       IN IF st.code = <<>> THEN <<>>                           \* step not applicable: drop the chain
          ELSE ChainCode(kinds, i + 1, 1 + Len(code) + Len(st.code), st.dims, code \o st.code)
ChainBases == <<<<2, 3>>, <<3, 1, 2>>>>
ChainLen == IF Thorough THEN 4 ELSE 3
ChainDescs == Flatten2([b \in DOMAIN ChainBases |->
                LET ks == SetToSeq([1..ChainLen -> 1..Len(StepKinds)])
                IN SelectSeq([j \in DOMAIN ks |-> <<"chain", ChainBases[b], [i \in 1..ChainLen |-> StepKinds[ks[j][i]]]>>],
                             LAMBDA e : ChainCode(e[3], 1, 1, e[2], <<>>) # <<>>)])

(* ---- one index OBJECT used for several calls: a caller that keeps its index in a variable.  The harness passes  *)
(* the same slice object whenever the same index is needed, so these cases apply one index, with a whole-dimension *)
(* range and as many entries as the rank, to tensors of different extents along that dimension.                    *)
SameIdxDescs == Flatten2([i \in DOMAIN GridSeq |->
                  LET g == GridSeq[i] r == Len(g) IN
                  IF r = 0 \/ r > 3 THEN <<>>
                  ELSE << <<"sameidx", g, SetDim(g, 1, g[1] + 2), [k \in 1..r |-> IF k = 1 THEN <<0, 0>> ELSE <<0, 1>>]>>,
                          <<"sameidx", SetDim(g, r, g[r] + 1), g, [k \in 1..r |-> IF k = r THEN <<0, 0>> ELSE <<g[k] - 1, g[k]>>]>>,
                          <<"sameidx-patch", SetDim(g, 1, g[1] + 1), g, [k \in 1..r |-> <<0, 0>>]>> >>])

All == ChainDescs \o SameIdxDescs \o SliceDescs \o PatchDescs \o ConcatDescs \o ReshapeDescs \o DimDescs \o BcastDescs \o CtorDescs \o RoundDescs
Descs == MyCases(All)

I1(d) == <<In("a", d, FALSE)>>
Build(d) ==
  CASE d[1] = "slice" -> MkCase("c06", "slice", I1(d[2]), <<"iota">>, <<Ins("slice", [index |-> d[3]], <<1>>)>>, <<2>>, 0, TRUE)
    [] d[1] = "patch" -> MkCase("c06", "patch", <<In("a", d[2], FALSE), In("p", d[3], FALSE)>>, <<"iota", "neg">>,
                                <<Ins("patch", [index |-> d[4]], <<1, 2>>)>>, <<3, 1, 2>>, 0, TRUE)
    [] d[1] = "concat" ->
         LET ins == [k \in DOMAIN d[2] |-> In(<<"a", "b", "c">>[k], d[2][k], FALSE)]
         IN MkCase("c06", "concat", ins, [k \in DOMAIN ins |-> <<"iota", "neg", "any">>[k]],
                   <<Ins("concat", [dim |-> d[3]], [k \in DOMAIN ins |-> k])>>, <<Len(ins) + 1>>, 0, TRUE)
    [] d[1] = "reshape" -> MkCase("c06", "reshape", I1(d[2]), <<"iota">>, <<Ins("reshape", [shape |-> d[3]], <<1>>)>>, <<2>>, 0, TRUE)
    [] d[1] \in {"unsqueeze", "flatten", "squeeze"} ->
         MkCase("c06", d[1], I1(d[2]), <<"iota">>, <<Ins(d[1], [dim |-> d[3]], <<1>>)>>, <<2>>, 0, TRUE)
    [] d[1] = "broadcast" -> MkCase("c06", "broadcast", I1(d[2]), <<"iota">>, <<Ins("broadcast", [shape |-> d[3]], <<1>>)>>, <<2>>, 0, TRUE)
    [] d[1] = "chain" ->
         LET code == ChainCode(d[3], 1, 1, d[2], <<>>)
         IN MkCase("c06", "chain", I1(d[2]), <<"iota">>, code, [i \in DOMAIN code |-> i + 1], 0, TRUE)
    [] d[1] = "ctor" -> MkCase("c06", "full-zeros-ones", <<>>, <<>>,
                               <<Ins("full", [shape |-> d[2], k |-> Q(-7, 2)], <<>>), Ins("zeros", [shape |-> d[2]], <<>>), Ins("ones", [shape |-> d[2]], <<>>)>>,
                               <<1, 2, 3>>, 0, TRUE)
    [] d[1] = "eye" -> MkCase("c06", "eye", <<>>, <<>>, <<Ins("eye", [dim |-> d[3]], <<>>)>>, <<1>>, 0, TRUE)
    [] d[1] = "sameidx" -> MkCase("c06", "same-index-object", <<In("a", d[2], FALSE), In("b", d[3], FALSE)>>, <<"iota", "neg">>,
                                  <<Ins("slice", [index |-> d[4]], <<1>>), Ins("slice", [index |-> d[4]], <<2>>), Ins("slice", [index |-> d[4]], <<1>>)>>,
                                  <<3, 4, 5>>, 0, TRUE)
    [] d[1] = "sameidx-patch" -> MkCase("c06", "same-index-object", <<In("a", d[2], FALSE), In("p", d[3], FALSE)>>, <<"iota", "neg">>,
                                  <<Ins("patch", [index |-> d[4]], <<1, 2>>), Ins("slice", [index |-> d[4]], <<3>>), Ins("slice", [index |-> d[4]], <<2>>)>>,
                                  <<3, 4, 5>>, 0, TRUE)
    [] d[1] = "rt-patch" ->
         (* write s into t at the last position it fits, then slice the covered ranges: must be s again *)
         LET g == d[2]
             s == d[3]
             ix == [k \in DOMAIN g |-> <<g[k] - s[k], g[k]>>]
         IN MkCase("c06", "roundtrip-patch-slice", <<In("a", g, FALSE), In("p", s, FALSE)>>, <<"iota", "neg">>,
                   <<Ins("patch", [index |-> ix], <<1, 2>>), Ins("slice", [index |-> ix], <<3>>)>>, <<3, 4>>, 0, TRUE)
    [] d[1] = "rt-concat" ->
         LET g == d[2]
             dim == d[3]
             n == g[dim + 1]
             allr == [k \in DOMAIN g |-> <<0, 0>>]
         IN MkCase("c06", "roundtrip-concat-slice", <<In("a", g, FALSE), In("b", g, FALSE)>>, <<"iota", "neg">>,
                   <<Ins("concat", [dim |-> dim], <<1, 2>>),
                     Ins("slice", [index |-> [allr EXCEPT ![dim + 1] = <<0, n>>]], <<3>>),
                     Ins("slice", [index |-> [allr EXCEPT ![dim + 1] = <<n, 2 * n>>]], <<3>>)>>, <<3, 4, 5>>, 0, TRUE)

Cases == [i \in DOMAIN Descs |-> Build(Descs[i])]

(* ---- the round-trip laws on the specification itself (pure data movement: syntactic equality) ---- *)
Small == SetToSeq(Shapes(3, 2) \ {<<>>})
ASSUME \A i \in DOMAIN Small :
         LET g == Small[i]
             t == SymT("t", g)
         IN /\ \A src \in SubShapes(g) : \A ix \in PatchIdx(g, src) :
                  Slice(Patch(t, ix, SymT("s", src)), Complete(ix, src)) = SymT("s", src)
            /\ \A d \in 1..Len(g) :
                  LET c == Concat(<<t, SymT("u", g)>>, d - 1)
                      allr == [k \in DOMAIN g |-> <<0, 0>>]
                  IN /\ Slice(c, [allr EXCEPT ![d] = <<0, g[d]>>]) = t
                     /\ Slice(c, [allr EXCEPT ![d] = <<g[d], 2 * g[d]>>]) = SymT("u", g)
            /\ \A f \in Factorisations(Prod(g), 3) : Reshape(t, f).data = t.data /\ NElems(Reshape(t, f)) = Prod(g)
ASSUME Write(Cases)
ASSUME PrintT(<<"generated", Len(Cases), "of", Len(All)>>)
=============================================================================
