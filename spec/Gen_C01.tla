------------------------------ MODULE Gen_C01 ------------------------------
(***************************************************************************)
(* C01 beyond the exhaustive bound of the Autograd machine: operation DAGs *)
(* of 10-12 nodes with heavy fan-out and reconvergence, the SAME tensor in *)
(* both operand slots of one operation, tracked and untracked leaves.      *)
(* Graph skeletons are drawn pseudo-randomly (a hash of the case number    *)
(* and VERIF_SEED picks operation and operands of every node, biased to    *)
(* recent nodes so that paths reconverge) plus a list of hand-written      *)
(* structures that past defects needed.  The expected gradient of EVERY    *)
(* tracked tensor the back-propagation passes through is the definition    *)
(* (Prog!GradDef: cut, differentiate, substitute), with symbolic values.   *)
(***************************************************************************)
EXTENDS Emit

NCases == IF Thorough THEN 40000 ELSE 1600
NNodes == IF Thorough THEN 12 ELSE 10
H(i, k, j) == (i * 7919 + k * 104729 + j * 1299709 + (Seed % 97) * 1009) % 1000003

Un == <<Ins("scale", [k |-> Two], <<>>), Ins("scale", [k |-> MinusOne], <<>>), Ins("tanh", [k |-> One], <<>>), Ins("sin", [k |-> One], <<>>), Ins("pow", [k |-> Two], <<>>)>>
Bi == <<"add", "sub", "mul", "elmax", "elmin", "add", "mul">>

(* operand for node n (ids 1..n-1 exist): mostly one of the three most recent nodes *)
Pick(i, n, j) == LET h == H(i, n, j) IN IF (h % 4) = 0 THEN 1 + ((h \div 4) % (n - 1)) ELSE (n - 1) - ((h \div 4) % (IF n - 1 < 3 THEN n - 1 ELSE 3))
NodeOf(i, n) ==
  LET h == H(i, n, 0)
  IN IF (h % 3) = 0 THEN LET u == Un[1 + ((h \div 3) % Len(Un))] IN Ins(u.op, u.par, <<Pick(i, n, 1)>>)
     ELSE LET a == Pick(i, n, 1)
              b == IF ((h \div 3) % 5) = 0 THEN a ELSE Pick(i, n, 2)          \* the same tensor in both slots, one time in five
          IN Ins(Bi[1 + ((h \div 3) % Len(Bi))], NoPar, <<a, b>>)

Leaves == <<In("x", <<2>>, TRUE), In("y", <<2>>, TRUE), In("c", <<2>>, FALSE)>>
RandomCase(i) ==
  LET code == [n \in 1..(NNodes - 3) |-> NodeOf(i, n + 3)]
  IN MkCase("c01", "random-dag", Leaves, <<"small", "small", "small">>, code, <<NNodes>>, NNodes, FALSE)

(* hand-written structures *)
V(n) == <<n>>
T1 == (* h in both slots of a direct-edge operation AND on a second, longer path to the root *)
  <<Ins("scale", [k |-> Two], <<1>>), Ins("elmax", NoPar, <<4, 4>>), Ins("sin", [k |-> One], <<4>>), Ins("scale", [k |-> QI(3)], <<6>>),
    Ins("exp", [k |-> One], <<7>>), Ins("add", NoPar, <<5, 8>>)>>
T2 == (* the same through Concat and Patch, which change the shape *)
  <<Ins("scale", [k |-> Two], <<1>>), Ins("concat", [dim |-> 0], <<4, 4>>), Ins("sin", [k |-> One], <<4>>), Ins("scale", [k |-> QI(3)], <<6>>),
    Ins("exp", [k |-> One], <<7>>), Ins("concat", [dim |-> 0], <<5, 8>>)>>
T3 == <<Ins("scale", [k |-> Two], <<1>>), Ins("patch", [index |-> <<<<0, 2>>>>], <<4, 4>>), Ins("tanh", [k |-> One], <<4>>), Ins("mul", NoPar, <<6, 6>>),
        Ins("sub", NoPar, <<5, 7>>)>>
T4 == (* three consumers of one tensor, reconverging pairwise; an untracked branch in between *)
  <<Ins("mul", NoPar, <<1, 2>>), Ins("tanh", [k |-> One], <<4>>), Ins("mul", NoPar, <<4, 3>>), Ins("sub", NoPar, <<4, 5>>), Ins("add", NoPar, <<6, 7>>),
    Ins("mul", NoPar, <<8, 5>>), Ins("gt", NoPar, <<9, 3>>), Ins("mul", NoPar, <<9, 10>>)>>
T5 == (* a ladder: every level feeds the next twice *)
  <<Ins("add", NoPar, <<1, 1>>), Ins("mul", NoPar, <<4, 4>>), Ins("sub", NoPar, <<5, 4>>), Ins("add", NoPar, <<6, 6>>), Ins("mul", NoPar, <<7, 5>>),
    Ins("elmin", NoPar, <<8, 8>>), Ins("add", NoPar, <<9, 7>>)>>
T6 == (* the root is a leaf's direct consumer and its indirect one; y only reachable through an untracked comparison *)
  <<Ins("ge", NoPar, <<2, 3>>), Ins("mul", NoPar, <<1, 4>>), Ins("add", NoPar, <<5, 1>>), Ins("mul", NoPar, <<6, 1>>)>>
Templates == <<T1, T2, T3, T4, T5, T6>>
TemplateCase(t) == MkCase("c01", "structure-" \o ToString(t), Leaves, <<"small", "small", "small">>, Templates[t],
                          <<3 + Len(Templates[t])>>, 3 + Len(Templates[t]), FALSE)

Descs == MyCases([i \in 1..(NCases + Len(Templates)) |-> i])
Cases == [d \in DOMAIN Descs |-> IF Descs[d] <= Len(Templates) THEN TemplateCase(Descs[d]) ELSE RandomCase(Descs[d])]
ASSUME Write(Cases)
ASSUME PrintT(<<"generated", Len(Cases)>>)
=============================================================================
