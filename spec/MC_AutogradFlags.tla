--------------------------- MODULE MC_AutogradFlags ---------------------------
(***************************************************************************)
(* The autograd machine with a minimal value alphabet (one leaf value,     *)
(* Scale, Add, the comparison Eq) so that the HISTORY dimension can be     *)
(* explored deeper: more tensors, repeated back-propagations over graphs    *)
(* sharing leaves, ResetGradContext(true | false) on any tensor, operations *)
(* on spent tensors.  This is the configuration behind C08.                *)
(***************************************************************************)
EXTENDS Autograd

MC_LeafVals == {Scalar(QI(2))}
MC_UnOps == {<<"scale", [k |-> Two]>>, <<"scale", [k |-> One]>>}      \* the identity factor: a shortcut returning the operand itself would show
MC_CtorShapes == {}
MC_BinOps == {<<"add", NoPar>>, <<"eq", NoPar>>}
Bounded == \A i \in Ids : \A p \in DOMAIN T[i].val.data : Abs(T[i].val.data[p].n) < 1000
=============================================================================
