------------------------------ MODULE Backprop ------------------------------
(***************************************************************************)
(* Reverse-mode accumulation, edge by edge, as pure operators.             *)
(*                                                                         *)
(* LocalVJP is the vector-Jacobian product of ONE application of an        *)
(* operation with respect to ONE operand, obtained from the definition of  *)
(* the operation (TensorOps / Components) by symbolic differentiation -    *)
(* there is no table of backward rules.  Autograd.tla uses it as the       *)
(* effect of its BPApply action; MachineRun below folds it over a          *)
(* straight-line program in one valid schedule.                            *)
(*                                                                         *)
(* NAMED DEVIATIONS.  The specification models the design; where the       *)
(* library at the pinned commit knowingly differs and the difference is a  *)
(* recorded finding, the difference is a switch here:                      *)
(*   "broadcast_grad_mean"  the gradient handed to an operand that was     *)
(*       expanded by broadcasting (explicitly, or implicitly inside Add,   *)
(*       Sub, Mul, Div, Dot, MatMul) is the MEAN over its copies instead   *)
(*       of the SUM, i.e. the correct local VJP divided by the expansion   *)
(*       factor  (finding D2; pinned by the repository's own TestBroadcast)*)
(* With dev = {} every property holds (TLC); with the deviation switched   *)
(* on TLC produces the counterexamples, and generators emit the "asis"     *)
(* expectation next to the correct one so that the harness can tell the    *)
(* recorded finding from any other discrepancy.                            *)
(***************************************************************************)
EXTENDS Prog

ONames == <<"o1", "o2", "o3", "o4">>
OIdx(name) == CHOOSE a \in 1..4 : ONames[a] = name

(* how many copies of each element of operand k the operation makes by broadcasting *)
ExpFactor(op, par, ad, k) ==
  CASE op \in ArithOps \cup {"dot"} -> BFactor(ad[k], BTarget(ad[1], ad[2]))
    [] op = "matmul" -> LET p1 == Prefix(ad[1], Len(ad[1]) - 2)
                            p2 == Prefix(ad[2], Len(ad[2]) - 2)
                        IN BFactor(IF k = 1 THEN p1 ELSE p2, BTarget(p1, p2))
    [] op = "broadcast" -> BFactor(ad[1], par.shape)
    [] OTHER -> 1

(* gx[i] = sum_j gy[j] * d y[j] / d x_k[i], evaluated at the operand values av *)
LocalVJP(op, par, av, k, gy, dev) ==
  LET syms == [a \in DOMAIN av |-> SymT(ONames[a], av[a].dims)]
      y == OpApply(op, par, syms)
      n == Prod(av[k].dims)
      S == [j \in DOMAIN y.data |-> SymsOf(y.data[j])]
      env == [s \in UNION {{ONames[a]} \X (1..Prod(av[a].dims)) : a \in DOMAIN av} |-> av[OIdx(s[1])].data[s[2]]]
      f == IF "broadcast_grad_mean" \in dev THEN ExpFactor(op, par, [a \in DOMAIN av |-> av[a].dims], k) ELSE 1
  IN [i \in 1..n |->
        Div(SumV([j \in DOMAIN y.data |->
                    IF <<ONames[k], i>> \in S[j]
                    THEN Mul(gy[j], Subst(Diff(y.data[j], Sym(ONames[k], i)), env))
                    ELSE Zero]),
            QI(f))]

VAdd(a, b) == [p \in DOMAIN a |-> Add(a[p], b[p])]
NoGrad == [has |-> FALSE, g |-> <<>>]
Accum(old, g) == IF old.has THEN [has |-> TRUE, g |-> VAdd(old.g, g)] ELSE [has |-> TRUE, g |-> g]

(* back-propagation over a straight-line program from node r, edges applied consumer by consumer *)
(* in decreasing node order (one of the schedules Autograd!BPApply allows)                        *)
RECURSIVE MEdges(_, _, _, _, _, _, _)
MEdges(grads, y, k, vals, tr, ins, dev) ==
  IF k > Len(ins.args) THEN grads
  ELSE LET x == ins.args[k]
           g2 == IF tr[x]
                 THEN [grads EXCEPT ![x] = Accum(@, LocalVJP(ins.op, ins.par, [a \in DOMAIN ins.args |-> vals[ins.args[a]]], k, grads[y].g, dev))]
                 ELSE grads
       IN MEdges(g2, y, k + 1, vals, tr, ins, dev)

RECURSIVE MNodes(_, _, _, _, _, _, _)
MNodes(grads, y, vals, tr, nIn, code, dev) ==
  IF y <= nIn THEN grads
  ELSE IF ~grads[y].has \/ ~tr[y] THEN MNodes(grads, y - 1, vals, tr, nIn, code, dev)
  ELSE MNodes(MEdges(grads, y, 1, vals, tr, code[y - nIn], dev), y - 1, vals, tr, nIn, code, dev)

MachineRun(inputs, code, r, dev) ==
  LET vals == Run(inputs, code)
      tr == Tracked(inputs, code)
      N == Len(vals)
      g0 == [m \in 1..N |-> IF m = r /\ tr[r] THEN [has |-> TRUE, g |-> [p \in 1..Prod(vals[r].dims) |-> One]] ELSE NoGrad]
  IN MNodes(g0, r, vals, tr, Len(inputs), code, dev)

(* does back-propagation from r pass an operand through an expansion with factor > 1 *)
UsesExpansion(inputs, code, vals, reach) ==
  \E y \in reach : y > Len(inputs) /\
     LET ins == code[y - Len(inputs)]
         ad == [a \in DOMAIN ins.args |-> vals[ins.args[a]].dims]
     IN \E k \in DOMAIN ins.args : ins.args[k] \in reach /\ ExpFactor(ins.op, ins.par, ad, k) > 1

=============================================================================
