----------------------------- MODULE Components ----------------------------
(***************************************************************************)
(* Layers, activations, losses and the optimizer step, each defined by the *)
(* formula the property states (X_Def).  These are definitions over tensor *)
(* values; how the library composes tensor operations to obtain them       *)
(* (UnSqueeze, expanding MatMul, SumAlong, clip by ElMin / ElMax, ...) is   *)
(* deliberately NOT mirrored: agreement of the real composition with the   *)
(* definition is what the conformance step establishes.                    *)
(***************************************************************************)
EXTENDS TensorOps

EpsLo == Cst("epsLo")       \* 1e-12
EpsHi == Cst("epsHi")       \* 1 - 1e-12

Clip(x, lo, hi) == MaxV(lo, MinV(x, hi))

(* ------------------------------- activations ----------------------------- *)

Relu(x) == Map1(LAMBDA v : MaxV(Zero, v), x)
LeakyRelu(x, m) == Map1(LAMBDA v : Add(MaxV(Zero, v), Mul(m, MinV(Zero, v))), x)
Sigmoid(x) == Map1(LAMBDA v : Inv(Add(One, Fn("exp", Neg(v)))), x)
TanhAct(x) == Map1(LAMBDA v : Fn("tanh", v), x)

(* e^x / sum of e^x along dimension dim (0-based) *)
Softmax(x, dim) ==
  Mk(x.dims, LAMBDA j : Div(Fn("exp", At(x, j)),
                            SumL(Zero, [p \in 1..x.dims[dim + 1] |-> Fn("exp", At(x, SetDim(j, dim + 1, p - 1)))])))

ActOps == {"relu", "leakyrelu", "sigmoid", "tanhact", "softmax"}

(* ---------------------------------- losses -------------------------------- *)

(* yp, yt of shape <<N>>: mean of squared differences *)
MSE(yp, yt) ==
  Scalar(Div(SumL(Zero, [b \in 1..yp.dims[1] |-> Pow(Sub(yt.data[b], yp.data[b]), Two)]), QI(yp.dims[1])))

(* yp, yt of shape <<N>>: negated mean of t log p + (1 - t) log(1 - p), clipped *)
BCE(yp, yt) ==
  LET N == yp.dims[1]
      p(b) == Clip(yp.data[b], EpsLo, EpsHi)
      t(b) == Clip(yt.data[b], Zero, One)
  IN Scalar(Div(Neg(SumL(Zero, [b \in 1..N |-> Add(Mul(t(b), Fn("log", p(b))),
                                                     Mul(Sub(One, t(b)), Fn("log", Sub(One, p(b)))))])),
                QI(N)))

(* yp, yt of shape <<N, C>>: negated batch mean of the per-row sum of t log p, clipped *)
CE(yp, yt) ==
  LET N == yp.dims[1]
      C == yp.dims[2]
      p(b, c) == Clip(At(yp, <<b - 1, c - 1>>), EpsLo, EpsHi)
      t(b, c) == Clip(At(yt, <<b - 1, c - 1>>), Zero, One)
  IN Scalar(Div(Neg(SumL(Zero, [b \in 1..N |-> SumL(Zero, [c \in 1..C |-> Mul(t(b, c), Fn("log", p(b, c)))])])),
                QI(N)))

LossOps == {"mse", "bce", "ce"}

(* ------------------------------------ FC ---------------------------------- *)

(* x of shape <<batch, features>>, W and B of shape <<outputs>>:             *)
(* y[b][o] = W[o] * sum_d x[b][d] + B[o]                                     *)
FC(W, B, x) ==
  Mk(<<x.dims[1], W.dims[1]>>,
     LAMBDA j : Add(Mul(W.data[j[2] + 1],
                        SumL(Zero, [d \in 1..x.dims[2] |-> At(x, <<j[1], d - 1>>)])),
                    B.data[j[2] + 1]))

(* ------------------------------------ SGD --------------------------------- *)

(* w - lr * g element-wise *)
SGDStep(w, g, lr) == Map2(LAMBDA a, b : Sub(a, Mul(lr, b)), w, g)

(* ------------------------- preconditions / dispatch ---------------------- *)

CompPre(op, par, ad) ==
  CASE op \in {"relu", "leakyrelu", "sigmoid", "tanhact"} -> TRUE
    [] op = "softmax" -> par.dim >= 0 /\ Len(ad[1]) > par.dim
    [] op \in {"mse", "bce"} -> Len(ad[1]) = 1 /\ Len(ad[2]) = 1 /\ ad[1] = ad[2]
    [] op = "ce" -> Len(ad[1]) = 2 /\ Len(ad[2]) = 2 /\ ad[1] = ad[2]
    [] op = "fc" -> Len(ad[1]) = 1 /\ ad[2] = ad[1] /\ Len(ad[3]) = 2        \* args: W, B, x

CompApply(op, par, args) ==
  CASE op = "relu" -> Relu(args[1])
    [] op = "leakyrelu" -> LeakyRelu(args[1], par.k)
    [] op = "sigmoid" -> Sigmoid(args[1])
    [] op = "tanhact" -> TanhAct(args[1])
    [] op = "softmax" -> Softmax(args[1], par.dim)
    [] op = "mse" -> MSE(args[1], args[2])
    [] op = "bce" -> BCE(args[1], args[2])
    [] op = "ce" -> CE(args[1], args[2])
    [] op = "fc" -> FC(args[1], args[2], args[3])

CompOps == ActOps \cup LossOps \cup {"fc"}

=============================================================================
