------------------------------ MODULE Gen_C04 ------------------------------
(***************************************************************************)
(* C04: MatMul, Dot and Transpose for every shape of the grid.             *)
(*                                                                         *)
(* MatMul: all m, n, k in 1..3 and every broadcast-compatible ordered pair *)
(* of batch shapes (either side may have fewer or size-1 batch dimensions; *)
(* ranks 2..6).  Dot: every compatible pair of leading shapes and every    *)
(* contracted size (ranks 1..6).  Transpose: every shape of rank >= 2.     *)
(* Every element is the term "sum over p of a[..] * b[..]" with a distinct *)
(* symbol per operand position, so a permuted batch / row / column mapping *)
(* cannot coincide with the expected one.  The identities A.I = A,         *)
(* (A.B)^T = B^T.A^T and Dot = MatMul of a row with a column are emitted   *)
(* as programs (both sides computed by the real code and each compared     *)
(* with the specification) and checked on the specification itself with    *)
(* rational entries.                                                       *)
(***************************************************************************)
EXTENDS Emit

Batch == IF Thorough THEN Shapes(4, 2) \cup Shapes(2, 3)
         ELSE Shapes(2, 2) \cup {<<3>>, <<1, 3>>, <<2, 1, 2>>, <<1, 2, 1, 2>>}
BPairs == SetToSeq({p \in Batch \X Batch : BCompatible(p[1], p[2])})
Sz == IF Thorough THEN 1..3 ELSE 1..2
MNK == SetToSeq((Sz \X Sz \X Sz) \cup {<<3, 2, 1>>, <<1, 3, 2>>, <<2, 1, 3>>, <<4, 5, 4>>, <<5, 1, 7>>, <<1, 6, 1>>})

MatMulDescs == Flatten2([i \in DOMAIN BPairs |-> [j \in DOMAIN MNK |->
                  <<"mm", BPairs[i][1] \o <<MNK[j][1], MNK[j][2]>>, BPairs[i][2] \o <<MNK[j][2], MNK[j][3]>>>>]])
DotDescs == Flatten2([i \in DOMAIN BPairs |-> [k \in 1..3 |-> <<"dot", BPairs[i][1] \o <<k>>, BPairs[i][2] \o <<k>>>>]])
TGrid == IF Thorough THEN Shapes(4, 3) \cup Shapes(6, 2) ELSE Shapes(3, 2) \cup Shapes(2, 3) \cup {<<2, 1, 2, 3>>, <<2, 1, 1, 2, 2>>, <<1, 2, 1, 2, 1, 2>>, <<4, 5>>, <<2, 5, 4>>, <<3, 2, 4, 7>>}
TrDescs == LET s == SetToSeq({d \in TGrid : Len(d) >= 2}) IN [i \in DOMAIN s |-> <<"tr", s[i], <<>>>>]
(* rejected: inner sizes differ, rank too small, batch shapes incompatible *)
BadDescs == <<
   <<"mm", <<2, 3>>, <<2, 3>>>>, <<"mm", <<3>>, <<3, 2>>>>, <<"mm", <<2, 3>>, <<3>>>>, <<"mm", <<>>, <<2, 2>>>>,
   <<"mm", <<2, 2, 3>>, <<3, 3, 2>>>>, <<"mm", <<2, 1, 2, 3>>, <<3, 2, 3, 2>>>>, <<"mm", <<1, 2>>, <<1, 2>>>>,
   <<"dot", <<3>>, <<2>>>>, <<"dot", <<>>, <<2>>>>, <<"dot", <<2>>, <<>>>>, <<"dot", <<2, 3>>, <<3, 3>>>>, <<"dot", <<2, 2, 3>>, <<3, 1, 3>>>>,
   <<"tr", <<3>>, <<>>>>, <<"tr", <<>>, <<>>>> >>
(* identities, as programs over square or conformable operands *)
IdDescs == Flatten2([i \in DOMAIN BPairs |->
             IF i % (IF Thorough THEN 3 ELSE 7) # Seed % (IF Thorough THEN 3 ELSE 7) THEN <<>>
             ELSE << <<"idT", BPairs[i][1] \o <<2, 3>>, BPairs[i][2] \o <<3, 2>>>>,
                     <<"idI", BPairs[i][1] \o <<3, 2>>, <<>>>>,
                     <<"idD", BPairs[i][1] \o <<3>>, BPairs[i][2] \o <<3>>>> >>])

(* sizes past the thresholds at which kernels are typically blocked, unrolled or parallelised *)
LargeDescs == << <<"mm", <<12, 9>>, <<9, 8>>>>, <<"mm", <<3, 10>>, <<10, 3>>>>, <<"mm", <<16, 5>>, <<5, 9>>>>, <<"mm", <<9, 9>>, <<9, 9>>>>,
                 <<"mm", <<2, 17>>, <<17, 2>>>>, <<"mm", <<4, 4, 4, 2, 2>>, <<2, 2>>>>, <<"mm", <<65, 1, 2>>, <<65, 2, 1>>>>, <<"mm", <<3, 23, 2, 3>>, <<3, 1, 3, 2>>>>,
                 <<"dot", <<17>>, <<17>>>>, <<"dot", <<3, 33>>, <<33>>>>, <<"dot", <<70, 2>>, <<70, 2>>>>,
                 <<"tr", <<17, 3>>, <<>>>>, <<"tr", <<4, 4, 4, 2, 3>>, <<>>>>, <<"tr", <<70, 2, 2>>, <<>>>> >>
(* the SAME tensor used by several operations in turn (an operation must not leave anything behind on its operands) *)
MixDescs == << <<"mix", <<1, 3>>, <<3, 3>>>>, <<"mix", <<2, 1, 2>>, <<2, 2>>>>, <<"mix", <<1, 2>>, <<2, 2>>>>, <<"mix", <<3, 1, 3>>, <<3, 3>>>> >>
(* a Transpose result used as a MatMul operand several times, with other products in between *)
ReuseTrDescs == << <<"retr", <<3, 2>>, <<4, 2>>, <<2, 2>>>>, <<"retr", <<2, 2>>, <<1, 2>>, <<3, 2>>>>, <<"retr", <<2, 3, 2>>, <<2, 1, 2>>, <<1, 2>>>> >>
(* operands with STRUCTURE in their trailing matrices (triangular, diagonal, permutation, identity somewhere in the stack, *)
(* zero rows): the values a kernel with a shortcut for special operands would look for.  The structure is a value domain *)
(* of the harness (m-...); the expected product is the same symbolic sum of products as for any other values.           *)
MDoms == <<"m-lowtri", "m-uptri", "m-diag", "m-perm", "m-ident1", "m-identlast", "m-zerorow", "m-symm">>
MShapes == << <<<<4, 4>>, <<4, 3>>>>, <<<<2, 5, 5>>, <<5, 2>>>>, <<<<2, 4, 4>>, <<2, 4, 2>>>>, <<<<3, 3>>, <<3, 3>>>>,
              <<<<3, 4>>, <<4, 4>>>>, <<<<2, 3, 4>>, <<2, 4, 4>>>>, <<<<2, 1, 2, 5>>, <<3, 5, 5>>>>, <<<<2, 2>>, <<3, 2, 2>>>> >>
StructDescs == Flatten2([i \in DOMAIN MShapes |-> Flatten2([j \in DOMAIN MDoms |->
                 LET a == MShapes[i][1] b == MShapes[i][2] ra == Len(a) rb == Len(b)
                 IN (IF a[ra - 1] = a[ra] THEN << <<"mms", a, b, MDoms[j], "any">> >> ELSE <<>>)
                    \o (IF b[rb - 1] = b[rb] THEN << <<"mms", a, b, "any", MDoms[j]>> >> ELSE <<>>)
                    \o (IF a[ra - 1] = a[ra] /\ b[rb - 1] = b[rb] THEN << <<"mms", a, b, MDoms[j], MDoms[(j % Len(MDoms)) + 1]>> >> ELSE <<>>)])])
Descs == MyCases(StructDescs \o ReuseTrDescs \o LargeDescs \o MixDescs \o MatMulDescs \o DotDescs \o TrDescs \o BadDescs \o IdDescs)

D == "any,wide,zero"
(* fourth profile: entries below 1e-240 (the library's equality tolerance) against entries above 1e240 - their products are ordinary numbers *)
DA == "any,wide,zero,tiny250"
DB == "any,wide,zero,huge250"
Build(d) ==
  CASE d[1] = "mm" -> MkCase("c04", "matmul", <<In("a", d[2], FALSE), In("b", d[3], FALSE)>>, <<DA, DB>>,
                             <<Ins("matmul", NoPar, <<1, 2>>)>>, <<3>>, 0, TRUE)
    [] d[1] = "mms" -> MkCase("c04", "matmul-structured", <<In("a", d[2], FALSE), In("b", d[3], FALSE)>>, <<d[4], d[5]>>,
                              <<Ins("matmul", NoPar, <<1, 2>>)>>, <<3>>, 0, TRUE)
    [] d[1] = "retr" ->
         (* w: [.., n, k] (transposed to [.., k, n]); x1: [.., m1, k]; x2: [m2, k] *)
         MkCase("c04", "transpose-reused", <<In("w", d[2], FALSE), In("x", d[3], FALSE), In("z", d[4], FALSE)>>, <<"any", "any", "any">>,
                <<Ins("transpose", NoPar, <<1>>), Ins("matmul", NoPar, <<2, 4>>), Ins("matmul", NoPar, <<3, 4>>), Ins("matmul", NoPar, <<4, 1>>),
                  Ins("matmul", NoPar, <<2, 4>>), Ins("matmul", NoPar, <<4, 1>>)>>, <<5, 6, 7, 8, 9>>, 0, TRUE)
    [] d[1] = "dot" -> MkCase("c04", "dot", <<In("a", d[2], FALSE), In("b", d[3], FALSE)>>, <<DB, DA>>,
                              <<Ins("dot", NoPar, <<1, 2>>)>>, <<3>>, 0, TRUE)
    [] d[1] = "tr" -> MkCase("c04", "transpose", <<In("a", d[2], FALSE)>>, <<"iota">>,
                             <<Ins("transpose", NoPar, <<1>>)>>, <<2>>, 0, TRUE)
    [] d[1] = "mix" ->
         LET t == BTarget(d[2], d[3])
         IN MkCase("c04", "mixed-use", <<In("a", d[2], FALSE), In("b", d[3], FALSE)>>, <<"any", "any">>,
                   <<Ins("matmul", NoPar, <<1, 2>>), Ins("add", NoPar, <<1, 2>>), Ins("sub", NoPar, <<2, 1>>), Ins("matmul", NoPar, <<1, 2>>),
                     Ins("broadcast", [shape |-> t], <<1>>), Ins("mul", NoPar, <<1, 2>>), Ins("dot", NoPar, <<1, 2>>), Ins("add", NoPar, <<1, 2>>)>>,
                   <<3, 4, 5, 6, 7, 8, 9, 10>>, 0, TRUE)
    [] d[1] = "idT" ->   \* (A.B)^T and B^T.A^T
         MkCase("c04", "id-transpose", <<In("a", d[2], FALSE), In("b", d[3], FALSE)>>, <<"any", "any">>,
                <<Ins("matmul", NoPar, <<1, 2>>), Ins("transpose", NoPar, <<3>>),
                  Ins("transpose", NoPar, <<2>>), Ins("transpose", NoPar, <<1>>), Ins("matmul", NoPar, <<5, 6>>)>>,
                <<4, 7>>, 0, TRUE)
    [] d[1] = "idI" ->   \* A.I
         MkCase("c04", "id-eye", <<In("a", d[2], FALSE)>>, <<"any">>,
                <<Ins("eye", [dim |-> 2], <<>>), Ins("matmul", NoPar, <<1, 2>>)>>, <<2, 3>>, 0, TRUE)
    [] d[1] = "idD" ->   \* Dot(a, b) and MatMul(a as rows, b as columns)
         LET ra == Len(d[2]) rb == Len(d[3])
         IN MkCase("c04", "id-dot", <<In("a", d[2], FALSE), In("b", d[3], FALSE)>>, <<"any", "any">>,
                   <<Ins("dot", NoPar, <<1, 2>>),
                     Ins("unsqueeze", [dim |-> ra - 1], <<1>>), Ins("unsqueeze", [dim |-> rb], <<2>>),
                     Ins("matmul", NoPar, <<4, 5>>)>>, <<3, 6>>, 0, TRUE)

Cases == [i \in DOMAIN Descs |-> Build(Descs[i])]

(* ---- the identities on the specification itself, exact rational entries ---- *)
LitA(dims) == [dims |-> dims, data |-> [p \in 1..Prod(dims) |-> Q(2 * p - 5, 3)]]
LitB(dims) == [dims |-> dims, data |-> [p \in 1..Prod(dims) |-> QI(((p * p) % 7) - 3)]]
IdPairs == SetToSeq({p \in (Shapes(2, 2) \cup {<<3>>, <<1, 3>>}) \X (Shapes(2, 2) \cup {<<3>>, <<1, 3>>}) : BCompatible(p[1], p[2])})
ASSUME \A i \in DOMAIN IdPairs :
         LET A == LitA(IdPairs[i][1] \o <<2, 3>>)
             B == LitB(IdPairs[i][2] \o <<3, 2>>)
         IN /\ Transpose(MatMul(A, B)) = MatMul(Transpose(B), Transpose(A))
            /\ MatMul(A, Eye(3)) = Broadcast(A, MatMul(A, Eye(3)).dims)
ASSUME \A i \in DOMAIN IdPairs :
         LET a == LitA(IdPairs[i][1] \o <<3>>)
             b == LitB(IdPairs[i][2] \o <<3>>)
             ra == Len(a.dims)
             rb == Len(b.dims)
             mm == MatMul(UnSqueeze(a, ra - 1), UnSqueeze(b, rb))
         IN Dot(a, b).data = mm.data /\ mm.dims = Dot(a, b).dims \o <<1, 1>>

ASSUME Write(Cases)
ASSUME PrintT(<<"generated", Len(Cases), "identities checked on the spec", 2 * Len(IdPairs)>>)
=============================================================================
