------------------------------ MODULE Gen_C03 ------------------------------
(***************************************************************************)
(* C03: element-wise operations and implicit broadcasting.                 *)
(*                                                                         *)
(* Unary operations over every shape of the grid; comparisons / ElMax /    *)
(* ElMin / Equals over equal shapes; Add / Sub / Mul / Div over EVERY      *)
(* broadcast-compatible ordered pair of shapes of the grid (either side    *)
(* smaller, several dimensions expanding at once, rank 0 included), each   *)
(* together with the same operation applied after broadcasting explicitly. *)
(* Incompatible pairs are emitted as cases that must be rejected.          *)
(***************************************************************************)
EXTENDS Emit

(* sizes beyond the small grid: loops unrolled or special-cased for a size show only here *)
Big == {<<5>>, <<7>>, <<4, 5>>, <<5, 1>>, <<1, 6>>, <<2, 4, 3>>, <<4, 1, 2, 5>>}
(* thresholds: work is sometimes split or blocked once a dimension or an element count passes 8, 16, 64, 512 *)
Large == {<<17>>, <<18, 2>>, <<2, 19>>, <<33>>, <<9, 2>>, <<3, 11>>}
Grid == Large \cup (IF Thorough THEN Shapes(4, 3) \cup Shapes(6, 2) ELSE Shapes(3, 2) \cup Shapes(2, 3) \cup {<<2, 1, 2, 1, 2>>, <<1, 1, 1, 1, 1, 2>>, <<3, 1, 2, 2>>}) \cup Big
GridSeq == SetToSeq(Grid)

Ks == <<QI(2), QI(-1), Half, Zero, Q(-3, 2), One>>        \* 1 and 0: identity / annihilating parameters invite shortcuts
PowKs == <<Two, QI(3), QI(-1), Half, Zero, One, QI(-2)>>

UnaryDescs ==
  Flatten2([i \in DOMAIN GridSeq |->
     [j \in DOMAIN Ks |-> <<"u", "scale", GridSeq[i], Ks[j]>>]
     \o [j \in DOMAIN PowKs |-> <<"u", "pow", GridSeq[i], PowKs[j]>>]
     \o [f \in 1..8 |-> <<"u", <<"exp", "log", "sin", "cos", "tan", "sinh", "cosh", "tanh">>[f], GridSeq[i], One>>]])

SameOps == <<"eq", "ne", "gt", "ge", "lt", "le", "elmax", "elmin">>
SameDescs == Flatten2([i \in DOMAIN GridSeq |-> [f \in DOMAIN SameOps |-> <<"s", SameOps[f], GridSeq[i], One>>]])

(* rank gaps of two and more with size-1 dimensions inside the smaller operand (the broadcast odometer has one counter per  *)
(* expanded dimension AND per new leading dimension): every rank 2 - 3 shape over {1,2} against every rank 4 shape, and some of rank 5 *)
GapPairs == IF Thorough THEN {}
            ELSE {p \in (ShapesOfRank(2, 2) \cup ShapesOfRank(3, 2)) \X (ShapesOfRank(4, 2) \cup {<<2, 2, 2, 2, 2>>, <<2, 1, 2, 2, 2>>, <<1, 2, 2, 1, 2>>}) : BCompatible(p[1], p[2])}
Pairs == SetToSeq({p \in Grid \X Grid : BCompatible(p[1], p[2])} \cup GapPairs \cup {<<p[2], p[1]>> : p \in GapPairs})
BadPairs == SetToSeq({p \in Grid \X Grid : ~BCompatible(p[1], p[2]) /\ Len(p[1]) <= 3 /\ Len(p[2]) <= 3})
AOps == <<"add", "sub", "mul", "div">>
(* quick: every pair, operations rotated over the pairs; thorough: every pair x every operation *)
ArithDescs ==
  IF Thorough
  THEN Flatten2([i \in DOMAIN Pairs |-> [f \in DOMAIN AOps |-> <<"b", AOps[f], Pairs[i][1], Pairs[i][2]>>]])
  ELSE [i \in DOMAIN Pairs |-> <<"b", AOps[((i + Seed) % 4) + 1], Pairs[i][1], Pairs[i][2]>>]
BadDescs == [i \in DOMAIN BadPairs |-> <<"x", AOps[((i + Seed) % 4) + 1], BadPairs[i][1], BadPairs[i][2]>>]
EqualsDescs == [i \in DOMAIN GridSeq |-> <<"e", "equals", GridSeq[i], One>>]

(* the SAME tensor object in both operand slots (memos keyed by identity, shortcuts for "identical operands") *)
SelfShapes == <<<<>>, <<3>>, <<2, 3>>, <<2, 1, 2>>>>
SelfDescs == Flatten2([i \in DOMAIN SelfShapes |-> [f \in DOMAIN SameOps |-> <<"self", SameOps[f], SelfShapes[i]>>]
                                                  \o [f \in DOMAIN AOps |-> <<"self", AOps[f], SelfShapes[i]>>]])
(* two implicit expansions whose (source, target) shapes collide under a digit-string / base-B cache key, in ONE case *)
PairFwDescs == << <<"pairfw", <<1, 1>>, <<11>>, <<2, 11>>>>, <<"pairfw", <<11, 1>>, <<1, 11>>, <<11, 11>>>>, <<"pairfw", <<2, 1>>, <<1, 32>>, <<2, 32>>>>,
                  <<"pairfw", <<1, 2>>, <<33, 1>>, <<33, 2>>>>, <<"pairfw", <<1, 12>>, <<11, 2>>, <<11, 12>>>> >>
Descs == MyCases(PairFwDescs \o UnaryDescs \o SameDescs \o ArithDescs \o BadDescs \o EqualsDescs \o SelfDescs)

(* tinypos / tinymix: DISTINCT neighbours closer than the library's equality tolerance (1e-240) *)
UDom(op, k) == CASE op = "log" -> "pos,wide,tinypos"
                 [] op = "pow" -> (IF k.d # 1 THEN "pos,tinypos" ELSE IF k.n < 0 THEN "nz,wide,tinypos" ELSE "any,wide,zero,tinymix")
                 [] op \in {"exp", "sinh", "cosh"} -> "any,big,zero,tinymix"
                 [] OTHER -> "any,wide,zero,tinymix"

Build(d) ==
  CASE d[1] = "u" ->
         MkCase("c03", d[2], <<In("a", d[3], FALSE)>>, <<UDom(d[2], d[4])>>,
                <<Ins(d[2], [k |-> d[4]], <<1>>)>>, <<2>>, 0, TRUE)
    [] d[1] = "s" ->
         MkCase("c03", d[2], <<In("a", d[3], FALSE), In("b", d[3], FALSE)>>,
                IF d[2] \in {"eq", "ne"} THEN <<"ties,wide", "ties,wide">> ELSE <<"ties,wide,tiny", "ties,wide,tiny">>,   \* orderings are exact also between denormal-sized values
                <<Ins(d[2], NoPar, <<1, 2>>)>>, <<3>>, 0, TRUE)
    [] d[1] = "b" ->
         LET t == BTarget(d[3], d[4])
         IN MkCase("c03", d[2], <<In("a", d[3], FALSE), In("b", d[4], FALSE)>>,
                   <<"any,wide,zero", IF d[2] = "div" THEN "nz,wide,nz" ELSE "any,wide,zero">>,
                   <<Ins(d[2], NoPar, <<1, 2>>),
                     Ins("broadcast", [shape |-> t], <<1>>), Ins("broadcast", [shape |-> t], <<2>>),
                     Ins(d[2], NoPar, <<4, 5>>)>>, <<3, 4, 5, 6>>, 0, TRUE)
    [] d[1] = "pairfw" ->
         (IF BCompatible(d[2], d[4]) /\ BCompatible(d[3], d[4])
          THEN MkCase("c03", "two-expansions", <<In("a", d[2], FALSE), In("b", d[3], FALSE), In("y", d[4], FALSE)>>, <<"any,distinct", "any,distinct", "any">>,
                      <<Ins("add", NoPar, <<1, 3>>), Ins("mul", NoPar, <<2, 3>>), Ins("sub", NoPar, <<3, 1>>), Ins("add", NoPar, <<3, 2>>)>>, <<4, 5, 6, 7>>, 0, TRUE)
          ELSE MkCase("c03", "two-expansions", <<In("a", d[2], FALSE), In("y", d[4], FALSE)>>, <<"any,distinct", "any">>,
                      <<Ins("add", NoPar, <<1, 2>>)>>, <<3>>, 0, TRUE))
    [] d[1] = "self" ->
         MkCase("c03", d[2] \o "-same-object", <<In("a", d[3], FALSE)>>, <<IF d[2] = "div" THEN "nz,wide,nz" ELSE "any,wide,zero,ties">>,
                <<Ins(d[2], NoPar, <<1, 1>>)>>, <<2>>, 0, TRUE)
    [] d[1] = "x" ->
         MkCase("c03", d[2], <<In("a", d[3], FALSE), In("b", d[4], FALSE)>>, <<"any", "any">>,
                <<Ins(d[2], NoPar, <<1, 2>>)>>, <<>>, 0, TRUE)
    [] d[1] = "e" ->
         (* Equals: TRUE exactly when every position compares equal *)
         LET a == SymT("a", d[3])
             b == SymT("b", d[3])
         IN MkCase("c03", "equals", <<In("a", d[3], FALSE), In("b", d[3], FALSE)>>, <<"ties", "ties,copy,copy200">>,       \* copy200: equal but for one element 1e-200 off (far above the tolerance 1e-240)
                   <<Ins("eq", NoPar, <<1, 2>>)>>, <<3>>, 0, TRUE)
            @@ [scal |-> <<[op |-> "equals", node |-> 1, node2 |-> 2,
                            val |-> Enc(MinL([p \in DOMAIN a.data |-> Cmp("eq", a.data[p], b.data[p])]))]>>]

Cases == [i \in DOMAIN Descs |-> Build(Descs[i])]

ASSUME Write(Cases)
ASSUME PrintT(<<"generated", Len(Cases), "of", Len(UnaryDescs) + Len(SameDescs) + Len(ArithDescs) + Len(BadDescs) + Len(EqualsDescs) + Len(SelfDescs) + Len(PairFwDescs)>>)
=============================================================================
