------------------------------ MODULE Gen_C16 ------------------------------
(***************************************************************************)
(* C16: the FC layer.  batch, features, outputs in 1..3 (1..4), distinct   *)
(* symbols everywhere (non-uniform W, B, x), every subset of {W, B, x}     *)
(* tracked, upstream weighting g.  Expected: y[b][o] = W[o]*sum_d x[b][d]  *)
(* + B[o] and the derivatives of that formula.  The harness builds the     *)
(* layer with NewFC and REPLACES its parameters through the Weights()      *)
(* pointers, so a Forward that does not read through the pointers fails.   *)
(* W and B are expanded over the batch: cases with batch > 1 carry the     *)
(* "asis" expectation of finding D2.                                       *)
(***************************************************************************)
EXTENDS Emit

R == IF Thorough THEN 1..4 ELSE 1..3
Trk == <<<<TRUE, TRUE, TRUE>>, <<TRUE, TRUE, FALSE>>, <<TRUE, FALSE, FALSE>>, <<FALSE, TRUE, FALSE>>, <<FALSE, FALSE, TRUE>>>>
D0 == SetToSeq((R \X R \X R) \cup {<<5, 4, 6>>, <<1, 7, 5>>, <<6, 1, 1>>, <<9, 2, 2>>, <<17, 3, 1>>, <<2, 9, 1>>, <<2, 3, 65>>, <<1, 70, 1>>, <<3, 2, 100>>})      \* the last three: more than 64 outputs / features (the products behind the gradients have an inner dimension beyond 64)
Descs == MyCases(Flatten2([i \in DOMAIN D0 |-> [t \in DOMAIN Trk |-> <<"ok", D0[i][1], D0[i][2], D0[i][3], Trk[t]>>]])
                 \o << <<"two", 2, 1>>, <<"two", 1, 2>>, <<"two", 3, 2>> >>
                 \o << <<"bad", <<2>>, <<2>>, <<3>>>>, <<"bad", <<2>>, <<2>>, <<2, 2, 2>>>>, <<"bad", <<2>>, <<2>>, <<>>>> >>)

(* two Forward calls of ONE layer object before any back-propagation, then two back-propagations: the graphs share only *)
(* the leaves W and B, whose gradients add up (batch 1: no expansion with factor > 1 is involved)                          *)
TwoFwd(feat, out) ==
  LET ins == <<In("w", <<out>>, TRUE), In("b", <<out>>, TRUE), In("x", <<1, feat>>, FALSE), In("z", <<1, feat>>, FALSE),
               In("g", <<1, out>>, FALSE), In("h", <<1, out>>, FALSE)>>
      par == [inst |-> 1, dim |-> 0]
      code == <<Ins("fc", par, <<1, 2, 3>>), Ins("mul", NoPar, <<7, 5>>), Ins("fc", par, <<1, 2, 4>>), Ins("mul", NoPar, <<9, 6>>)>>
      sum(a, b) == [i \in DOMAIN a |-> Add(a[i], b[i])]
  IN MkCase("c16", "fc-two-forwards", ins, <<"any", "any", "any", "any", "any", "any">>, code, <<7, 9>>, 8, FALSE)
     @@ [post |-> <<EncIns(Ins("bp", NoPar, <<10>>))>>,
         postgrads |-> <<[node |-> 1, dims |-> <<out>>, data |-> EncSeq(sum(GradDef(ins, code, 8, 1), GradDef(ins, code, 10, 1)))],
                         [node |-> 2, dims |-> <<out>>, data |-> EncSeq(sum(GradDef(ins, code, 8, 2), GradDef(ins, code, 10, 2)))]>>]

Build(d) ==
  IF d[1] = "two" THEN TwoFwd(d[2], d[3]) ELSE
  IF d[1] = "bad"
  THEN MkCase("c16", "fc-bad", <<In("w", d[2], TRUE), In("b", d[3], TRUE), In("x", d[4], FALSE)>>, <<"any", "any", "any">>,
              <<Ins("fc", NoPar, <<1, 2, 3>>)>>, <<>>, 0, FALSE)
  ELSE LET batch == d[2] feat == d[3] out == d[4]
       IN MkCaseD("c16", "fc", <<In("w", <<out>>, d[5][1]), In("b", <<out>>, d[5][2]), In("x", <<batch, feat>>, d[5][3]), In("g", <<batch, out>>, FALSE)>>,
                  <<"any,any,tiny250", "any", "any,any,huge250", "any">>,        \* third profile: weights below 1e-240 against inputs above 1e240
                  <<Ins("fc", NoPar, <<1, 2, 3>>), Ins("mul", NoPar, <<5, 4>>)>>, <<5>>, 6, FALSE)

Cases == [i \in DOMAIN Descs |-> Build(Descs[i])]

(* the composition the library uses computes the defined value (exact, rational entries) *)
ASSUME \A batch \in 1..2, feat \in 1..3, out \in 1..2 :
         LET W == [dims |-> <<out>>, data |-> [p \in 1..out |-> Q(p + 1, 2)]]
             B == [dims |-> <<out>>, data |-> [p \in 1..out |-> QI(p - 3)]]
             x == [dims |-> <<batch, feat>>, data |-> [p \in 1..(batch * feat) |-> Q(2 * p - 3, 3)]]
             y1 == Apply("matmul", NoPar, <<UnSqueeze(W, 1), UnSqueeze(x, 1)>>)
             y2 == Arith("add", ReduceAlong("sum", y1, 2), B)
         IN y2 = FC(W, B, x)
ASSUME Write(Cases)
ASSUME PrintT(<<"generated", Len(Cases)>>)
=============================================================================
