------------------------------- MODULE MC_Conc -------------------------------
EXTENDS Conc, SequencesExt

S(i) == <<"s", i>>
Lc(j) == <<"l", j>>
(* the menu: forward computations on the shared tensors (tensor ops, layer / loss style chains, graph construction), *)
(* building and back-propagating a private graph that uses the shared UNTRACKED tensor, resets, random constructors  *)
MC_Menu == <<
  << <<"op", <<S(1), S(3)>>, "mul">>, <<"op", <<Lc(1)>>, "sumalong">>, <<"cmp", <<Lc(1), S(2)>>>>, <<"op", <<S(6), S(2)>>, "mul">> >>,           \* forward chain on the shared parameter
  << <<"leaf", TRUE>>, <<"op", <<Lc(1), S(3)>>, "mul">>, <<"op", <<Lc(2)>>, "relu">>, <<"op", <<Lc(3)>>, "varalong">>, <<"bp", Lc(4)>> >>,        \* private graph over the shared untracked tensor, back-propagated (VarAlong: a backward rule that itself computes with several helper tensors)
  << <<"op", <<S(1)>>, "sigmoid">>, <<"op", <<Lc(1), S(2)>>, "mse">>, <<"rand">>, <<"op", <<S(1), Lc(3)>>, "mul">>, <<"op", <<S(6)>>, "tanh">> >>, \* activation + loss on the parameter, a random constructor
  << <<"leaf", TRUE>>, <<"op", <<Lc(1), Lc(1)>>, "mul">>, <<"bp", Lc(2)>>, <<"reset", Lc(1), TRUE>>, <<"op", <<Lc(1), S(2)>>, "matmul">>, <<"bp", Lc(3)>> >>,  \* train-like private loop
  << <<"op", <<S(1)>>, "transpose">>, <<"op", <<Lc(1), S(2)>>, "concat">>, <<"op", <<Lc(2)>>, "softmax">>, <<"op", <<S(1)>>, "fc">>, <<"op", <<Lc(4), S(2)>>, "bce">>, <<"op", <<S(2)>>, "slice">> >>,  \* shape ops, a SHARED layer object, a loss
  << <<"leaf", TRUE>>, <<"op", <<Lc(1), S(2)>>, "elmax">>, <<"op", <<Lc(2), S(2)>>, "concat">>, <<"op", <<Lc(3)>>, "slice">>, <<"bp", Lc(4)>> >>   \* the shared untracked tensor as a DIRECT operand of back-propagated operations; Slice's backward rule builds helper tensors
>>
(* two more forward programs over the remaining operation families (contraction, data movement, reductions, losses) *)
MC_MenuMore == <<
  << <<"op", <<S(1), S(2)>>, "dot">>, <<"op", <<S(1)>>, "reshape">>, <<"op", <<S(2)>>, "broadcast">>, <<"op", <<S(1), S(3)>>, "patch">>, <<"op", <<S(1)>>, "varalong">>, <<"op", <<S(1), S(4)>>, "mul">>, <<"grad", S(5)>> >>,
  << <<"op", <<S(1), S(2)>>, "matmul">>, <<"op", <<S(1)>>, "pow">>, <<"op", <<Lc(2), S(2)>>, "div">>, <<"op", <<S(1)>>, "leakyrelu">>, <<"op", <<S(1), S(3)>>, "ce">>, <<"op", <<S(3)>>, "maxalong">>, <<"grad", S(5)>>, <<"op", <<S(4), S(1)>>, "sub">> >>
>>
MC_Menu8 == MC_Menu \o MC_MenuMore
(* the same plus a program that violates the proviso (back-propagates through the shared parameter) *)
MC_MenuBad == MC_Menu \o << << <<"op", <<S(1), S(2)>>, "mul">>, <<"bp", Lc(1)>> >> >>

(* the sequential write footprints of a program: per instruction, the heap ids whose context the call writes *)
RECURSIVE SeqFoot(_, _, _, _)
SeqFoot(p, i, H, L) ==
  IF i > Len(p) THEN <<>>
  ELSE LET ins == p[i]
           res(slot) == IF slot[1] = "s" THEN slot[2] ELSE L[slot[2]]
           RECURSIVE R(_)
           R(r) == IF ~H[r].tracked THEN {} ELSE {r} \cup UNION {R(H[r].args[k]) : k \in (IF H[r].wired THEN DOMAIN H[r].args ELSE {})}
           w == CASE ins[1] = "bp" -> R(res(ins[2])) [] ins[1] = "reset" -> {res(ins[2])} [] OTHER -> {}
           nxt == SeqRun(<<ins>>, 1, H, L)
       IN <<SetToSeq(w)>> \o SeqFoot(p, i + 1, nxt.H, nxt.L)
Emit == PrintT(ToJson([menu |-> MC_Menu8,
                       views |-> [m \in DOMAIN MC_Menu8 |-> SeqView(MC_Menu8[m])],
                       writes |-> [m \in DOMAIN MC_Menu8 |-> SeqFoot(MC_Menu8[m], 1, InitHeap, <<>>)]]))
ASSUME Emit

DumpFinal == (\A g \in G : ~Running(g)') => PrintT(ToJson([progs |-> prog', views |-> [g \in G |-> LocalView(g)']]))
=============================================================================
