-------------------------------- MODULE Emit --------------------------------
(***************************************************************************)
(* Wire format between TLC and the Go harness, and the helpers every       *)
(* generator (Gen_*.tla) uses to turn a program of the specification into  *)
(* a replayable case: the program, whether its last instruction must be    *)
(* rejected, the shape and the term of every element of every result, and  *)
(* - if a root is given - the gradient every node must hold after          *)
(* back-propagating from it (Prog!BPOutcome, i.e. the definition).         *)
(*                                                                         *)
(* Generators are evaluated by TLC through ASSUME (no behaviour spec) and  *)
(* write newline-delimited JSON.  Parameters come from the environment:    *)
(*   QV_OUT  output file      QV_TIER  quick | thorough                    *)
(*   QV_PART / QV_NPARTS      this process emits cases p with              *)
(*                            p % NPARTS = PART                            *)
(*   QV_SEED                  VERIF_SEED, rotates sampled sub-grids        *)
(***************************************************************************)
EXTENDS Impl, TLC, Json, IOUtils, SequencesExt, FiniteSetsExt

EnvOr(name, default) == IF name \in DOMAIN IOEnv THEN IOEnv[name] ELSE default
Tier == EnvOr("QV_TIER", "quick")
Thorough == Tier = "thorough"
Part == atoi(EnvOr("QV_PART", "0"))
NParts == atoi(EnvOr("QV_NPARTS", "1"))
Seed == atoi(EnvOr("QV_SEED", "0"))
OutFile == EnvOr("QV_OUT", "cases.ndjson")

(* terms as compact JSON arrays *)
RECURSIVE EncI(_)
EncI(e) == CASE e.k = "il" -> <<"il", e.n>>
             [] e.k = "iv" -> <<"iv", e.v>>
             [] e.k = "io" -> <<"io", e.f, EncI(e.a), EncI(e.b)>>
RECURSIVE Enc(_)
Enc(v) == CASE v.k = "q" -> <<"q", v.n, v.d>>
            [] v.k = "sx" -> <<"sx", v.t, EncI(v.ix)>>
            [] v.k = "bs" -> <<"bs", v.f, v.v, v.lo, v.hi, Enc(v.body)>>
            [] v.k = "let" -> <<"let", v.v, Enc(v.val), Enc(v.body)>>
            [] v.k = "rv" -> <<"rv", v.v>>
            [] v.k = "memo" -> <<"memo", [i \in DOMAIN v.keys |-> EncI(v.keys[i])], Enc(v.body)>>
            [] v.k = "if" -> <<"if", EncI(v.a), EncI(v.b), Enc(v.t), Enc(v.e)>>
            [] v.k = "s" -> <<"s", v.t, v.i>>
            [] v.k = "c" -> <<"c", v.c>>
            [] v.k = "a" -> <<v.f>> \o [i \in DOMAIN v.a |-> Enc(v.a[i])]
EncSeq(s) == [i \in DOMAIN s |-> Enc(s[i])]
EncData(s) == EncSeq(s)
EncParOf(par) == IF "k" \in DOMAIN par THEN [par EXCEPT !.k = Enc(@)] ELSE par
EncT(node, t) == [node |-> node, dims |-> t.dims, data |-> EncSeq(t.data)]
EncIns(ins) == [op |-> ins.op, args |-> ins.args,
                par |-> IF "k" \in DOMAIN ins.par THEN [ins.par EXCEPT !.k = Enc(@)] ELSE ins.par]
EncCode(code) == [i \in DOMAIN code |-> EncIns(code[i])]
EncIn(in, dom) == [name |-> in.name, dims |-> in.dims, tracked |-> in.tracked, dom |-> dom]

(* all instructions but the last are well-formed *)
PrefixOK(inputs, code) == WellFormed(inputs, SubSeq(code, 1, Len(code) - 1))

(* doms: one value-domain hint per input (see harness/internal/sym)        *)
(* outs: the node ids whose value is compared                              *)
(* root: 0, or the node to back-propagate from                             *)
MkCase(fam, name, inputs, doms, code, outs, root, ties) ==
  LET base == [fam |-> fam, name |-> name, code |-> EncCode(code), ties |-> ties,
               inputs |-> [i \in DOMAIN inputs |-> EncIn(inputs[i], doms[i])]]
  IN IF ~WellFormed(inputs, code)
     THEN base @@ [ok |-> FALSE]
     ELSE LET vals == Run(inputs, code)
              o == [i \in DOMAIN outs |-> EncT(outs[i], vals[outs[i]])]
          IN IF root = 0
             THEN base @@ [ok |-> TRUE, outs |-> o]
             ELSE LET bp == BPOutcome(inputs, code, root)
                  IN base @@ [ok |-> TRUE, outs |-> o, root |-> root,
                              grads |-> [i \in DOMAIN bp.grads |-> [node |-> bp.grads[i].node, dims |-> bp.grads[i].dims,
                                                                   data |-> EncSeq(bp.grads[i].data)]],
                              nograd |-> bp.nograd]

(* a call the specification rejects, made just before code instruction `at`: the program up to there is well-formed, *)
(* the program extended by the call is not                                                                            *)
Rejected(inputs, code, at, ins) ==
  LET prefix == SubSeq(code, 1, at - 1)
  IN IF WellFormed(inputs, prefix) /\ ~WellFormed(inputs, Append(prefix, ins))
     THEN [at |-> at, ins |-> EncIns(ins)]
     ELSE Assert(FALSE, <<"the specification does not reject", ins>>)

(* MkCase plus, where back-propagation passes through an expansion with factor > 1, *)
(* the gradients under the recorded deviation "broadcast_grad_mean" ("asis")        *)
MkCaseD(fam, name, inputs, doms, code, outs, root, ties) ==
  LET c == MkCase(fam, name, inputs, doms, code, outs, root, ties)
  IN IF ~c.ok \/ root = 0 \/ ~Deviates(inputs, code, root) THEN c
     ELSE LET a == AsIs(inputs, code, root)
          IN c @@ [dev |-> <<"broadcast_grad_mean">>,
                   asis |-> [i \in DOMAIN c.grads |-> [node |-> c.grads[i].node, dims |-> c.grads[i].dims,
                                                       data |-> EncSeq(a[c.grads[i].node].g)]]]

Mine(p) == p % NParts = Part

(* the elements of a sequence this process is responsible for *)
MyPart(seq) == SelectSeq([i \in DOMAIN seq |-> <<i, seq[i]>>], LAMBDA e : Mine(e[1]))
Seconds(seq) == [i \in DOMAIN seq |-> seq[i][2]]
MyCases(seq) == Seconds(MyPart(seq))

(* keep one of every n elements, rotated by the seed *)
Sample(seq, n) == IF n <= 1 THEN seq
                  ELSE Seconds(SelectSeq([i \in DOMAIN seq |-> <<i, seq[i]>>], LAMBDA e : e[1] % n = Seed % n))

RECURSIVE Flatten2(_)
Flatten2(ss) == IF ss = <<>> THEN <<>> ELSE Head(ss) \o Flatten2(Tail(ss))

Write(cases) == ndJsonSerialize(OutFile, cases)

=============================================================================
