-------------------------------- MODULE Total --------------------------------
(***************************************************************************)
(* C09: the outcome of every public call as a function of its arguments:   *)
(* rejected (an error and no result) exactly when the documented           *)
(* precondition is violated, otherwise a result of the defined shape.      *)
(* Arguments range over everything a caller can write: negative, zero and  *)
(* out-of-range sizes / dims / indexes, reversed or oversized ranges, nil  *)
(* tensors and slices, ragged nested data, invalid configurations.         *)
(*                                                                         *)
(* A call is a record [fn |-> name, ...arguments].  NilV in the place of a  *)
(* tensor shape or a slice stands for a nil argument.                       *)
(***************************************************************************)
EXTENDS Prog

NilV == <<-99>>          \* stands for a nil tensor / nil slice argument
IsNil(x) == x = NilV
NilList == <<<<-99, -99>>>>     \* stands for a nil list of tensors
IsNilList(x) == x = NilList

(* ---- nested data for TensorOf: depth 0 = a number; sequences below ---- *)
RECURSIVE NestDims(_, _)
(* the shape of rectangular non-empty nested data of the given depth, or <<-1>> if ragged or empty somewhere *)
NestDims(data, depth) ==
  IF depth = 0 THEN <<>>
  ELSE IF Len(data) = 0 THEN <<-1>>
  ELSE LET subs == [i \in DOMAIN data |-> NestDims(data[i], depth - 1)]
       IN IF \E i \in DOMAIN subs : subs[i] = <<-1>> THEN <<-1>>
          ELSE IF \E i \in DOMAIN subs : subs[i] # subs[1] THEN <<-1>>
          ELSE <<Len(data)>> \o subs[1]

Rejected == [ok |-> FALSE, dims |-> <<>>]
Accepted(dims) == [ok |-> TRUE, dims |-> dims]
Cond(pre, dims) == IF pre THEN Accepted(dims) ELSE Rejected

(* tensor-method calls go through TensorOps!Pre / Apply; every operand must be a tensor *)
MethodOutcome(op, par, argdims) ==
  IF \E i \in DOMAIN argdims : IsNil(argdims[i]) THEN Rejected
  ELSE IF op = "equals" THEN Cond(OpPre(op, par, argdims), <<>>)
  ELSE IF OpPre(op, par, argdims) THEN Accepted(OpApply(op, par, [i \in DOMAIN argdims |-> SymT("t", argdims[i])]).dims)
  ELSE Rejected

Outcome(c) ==
  CASE c.fn \in {"full", "zeros", "ones"} -> IF IsNil(c.dims) THEN Accepted(<<>>) ELSE Cond(ValidDims(c.dims), c.dims)
    [] c.fn = "eye" -> Cond(c.n > 0, <<c.n, c.n>>)
    (* every constructor takes an optional configuration: nil, or a device (only CPU = 1 exists) and the tracking flag *)
    [] c.fn = "ctor-conf" -> Cond(c.device = 1, IF c.ctor = "eye" THEN <<2, 2>> ELSE IF c.ctor = "tensorof" THEN <<2>> ELSE <<2, 3>>)
    [] c.fn = "randu" -> Cond(c.lo < c.hi /\ (IsNil(c.dims) \/ ValidDims(c.dims)), IF IsNil(c.dims) THEN <<>> ELSE c.dims)
    [] c.fn = "randn" -> Cond(c.sigma > 0 /\ (IsNil(c.dims) \/ ValidDims(c.dims)), IF IsNil(c.dims) THEN <<>> ELSE c.dims)
    [] c.fn = "tensorof" -> LET d == NestDims(c.data, c.depth) IN Cond(d # <<-1>>, d)
    [] c.fn = "at" -> LET ix == IF IsNil(c.index) THEN <<>> ELSE c.index      \* a nil index is the empty index
                      IN Cond(Len(ix) = Len(c.dims) /\ \A i \in DOMAIN ix : 0 <= ix[i] /\ ix[i] < c.dims[i], <<>>)
    [] c.fn = "method" -> MethodOutcome(c.op, c.par, c.args)
    [] c.fn = "concat" -> IF IsNilList(c.args) \/ Len(c.args) < 2 THEN Rejected ELSE MethodOutcome("concat", c.par, c.args)
    [] c.fn = "backprop" -> Cond(~IsNil(c.dims), <<>>)
    (* components *)
    [] c.fn = "fc-new" -> Cond(~c.nilconf /\ c.inputs > 0 /\ c.outputs > 0 /\ c.winit # "nilinit" /\ c.binit # "nilinit"
                               /\ c.winit \notin {"wrong-rank", "wrong-size", "returns-nil"} /\ c.binit \notin {"wrong-rank", "wrong-size", "returns-nil"}, <<c.outputs>>)
    [] c.fn = "fc-forward" -> Cond(Len(c.args) = 1 /\ ~IsNil(c.args[1]) /\ Len(c.args[1]) = 2, IF Len(c.args) = 1 /\ ~IsNil(c.args[1]) /\ Len(c.args[1]) = 2 THEN <<c.args[1][1], c.outputs>> ELSE <<>>)
    [] c.fn = "act-forward" -> Cond(Len(c.args) = 1 /\ ~IsNil(c.args[1]) /\ (c.act # "softmax" \/ Len(c.args[1]) > c.dim), IF Len(c.args) = 1 /\ ~IsNil(c.args[1]) THEN c.args[1] ELSE <<>>)
    [] c.fn = "softmax-new" -> Cond(c.nilconf \/ c.dim >= 0, <<>>)
    [] c.fn = "input-forward" -> Cond(Len(c.args) = 0 /\ c.seed, <<>>)
    [] c.fn = "loss" -> IF IsNil(c.p) \/ IsNil(c.t) THEN Rejected ELSE Cond(CompPre(c.loss, NoPar, <<c.p, c.t>>), <<>>)
    [] c.fn = "accuracy" -> Cond(~IsNil(c.p) /\ ~IsNil(c.t) /\ Len(c.p) = 1 /\ Len(c.t) = 1 /\ c.p = c.t, <<>>)
    [] c.fn = "sgd-update" -> Cond(c.state = "has-grad", <<>>)
    [] c.fn = "init-new" ->
         Cond(CASE c.kind = "full" -> TRUE
                [] c.kind = "uniform" -> c.nilconf \/ c.a < c.b
                [] c.kind = "normal" -> c.nilconf \/ c.b > 0
                [] c.kind \in {"he-uniform", "he-normal"} -> ~c.nilconf /\ c.a > 0
                [] c.kind \in {"xavier-uniform", "xavier-normal"} -> ~c.nilconf /\ c.a > 0 /\ c.b > 0, <<>>)
    [] c.fn = "init-init" -> IF IsNil(c.dims) THEN Accepted(<<>>) ELSE Cond(ValidDims(c.dims), c.dims)

=============================================================================
