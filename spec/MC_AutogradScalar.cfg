SPECIFICATION Spec
CONSTANTS
  MaxNodes = 4
  MaxBP = 2
  AllowReset = TRUE
  AllowScribble = FALSE
  Dev = {}
  Recorded = {"broadcast_grad_mean"}
  LeafVals <- MC_LeafVals
  UnOps <- MC_UnOps
  BinOps <- MC_BinOps
  CtorShapes <- MC_CtorShapes
VIEW View
CONSTRAINT Bounded
INVARIANTS C01_Total C08_Frame C08_Retire C08_Shape
PROPERTIES C10_ValuesFrozen C10_GradOnlyInBP C10_TrackedOnlyByReset C01_Once
CHECK_DEADLOCK FALSE
