SPECIFICATION Spec
CONSTANTS
  MaxNodes = 3
  MaxBP = 2
  AllowReset = TRUE
  AllowScribble = FALSE
  Dev = {}
  Recorded = {"broadcast_grad_mean"}
  LeafVals <- MC_LeafVals
  UnOps <- MC_UnOps
  BinOps <- MC_BinOps
  CtorShapes <- MC_CtorShapes
VIEW View
CONSTRAINT Bounded
ACTION_CONSTRAINT Dump
CHECK_DEADLOCK FALSE
