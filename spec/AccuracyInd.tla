---------------------------- MODULE AccuracyInd ----------------------------
(***************************************************************************)
(* The counters of the Accuracy metric for batches of ANY size and any     *)
(* number of calls, as an inductive invariant discharged by Apalache:      *)
(*    IndInit => IndInv   and   IndInv /\ Next => IndInv'                   *)
(* (the sequence-level statement - the counters equal matched/total of the *)
(* concatenation - is model-checked by TLC in Accuracy.tla; this module    *)
(* removes the bound on sizes and history length for the numeric part).    *)
(***************************************************************************)
EXTENDS Integers

VARIABLES
  \* @type: Int;
  total,
  \* @type: Int;
  correct

Init == total = 0 /\ correct = 0

\* an accepted batch of n >= 1 positions of which k (0 <= k <= n) match
Accumulate(n, k) == /\ n >= 1 /\ 0 <= k /\ k <= n
                    /\ total' = total + n
                    /\ correct' = correct + k
\* a rejected call changes nothing
Rejected == UNCHANGED <<total, correct>>

Next == (\E n \in Int : \E k \in Int : Accumulate(n, k)) \/ Rejected

IndInv == /\ total >= 0 /\ correct >= 0 /\ correct <= total
          /\ (total = 0 => correct = 0)
IndInit == /\ \E t \in Int : total = t
           /\ \E c \in Int : correct = c
           /\ IndInv

\* Result = correct / total lies in [0, 1]: correct <= total and both non-negative
=============================================================================
