----------------------------- MODULE TensorOps -----------------------------
(***************************************************************************)
(* Every tensor operation of the library, specified declaratively.         *)
(*                                                                         *)
(* A tensor value is [dims |-> shape, data |-> row-major sequence of       *)
(* terms].  Each operation is given by                                     *)
(*    Pre(op, par, argDims)   the documented precondition                  *)
(*    Apply(op, par, args)    the result: its dims and, for every output   *)
(*                            multi-index j, the term of the element at j  *)
(*                            as a function of operand elements.           *)
(* The library implements most of these with hand-written multi-index      *)
(* generators with carry logic; nothing of that structure is mirrored      *)
(* here (Mk maps a multi-index to its element directly).                   *)
(*                                                                         *)
(* par is a record; only the fields an operation needs are read:           *)
(*   dim, k (scale factor / exponent, a rational literal), shape, index    *)
(***************************************************************************)
EXTENDS Val, Shape

At(t, idx) == t.data[Flat(idx, t.dims) + 1]
Mk(dims, f(_)) == [dims |-> dims, data |-> [p \in 1..Prod(dims) |-> f(Unflat(p - 1, dims))]]
SymT(name, dims) == [dims |-> dims, data |-> [p \in 1..Prod(dims) |-> Sym(name, p)]]
ConstT(v, dims) == [dims |-> dims, data |-> [p \in 1..Prod(dims) |-> v]]
LitT(dims, ints) == [dims |-> dims, data |-> [p \in 1..Prod(dims) |-> QI(ints[p])]]
Iota(dims) == [dims |-> dims, data |-> [p \in 1..Prod(dims) |-> QI(p)]]
NElems(t) == Prod(t.dims)
Scalar(v) == [dims |-> <<>>, data |-> <<v>>]

Map1(f(_), t) == [dims |-> t.dims, data |-> [p \in DOMAIN t.data |-> f(t.data[p])]]
Map2(f(_, _), a, b) == [dims |-> a.dims, data |-> [p \in DOMAIN a.data |-> f(a.data[p], b.data[p])]]

(* ------------------------------ constructors ----------------------------- *)

Full(dims, v) == ConstT(v, dims)
Eye(n) == Mk(<<n, n>>, LAMBDA j : IF j[1] = j[2] THEN One ELSE Zero)

(* --------------------------- indexing / reshaping ------------------------ *)

Slice(t, index) ==
  LET c == Complete(index, t.dims)
  IN Mk(RangeDims(c), LAMBDA j : At(t, [i \in 1..Len(j) |-> j[i] + c[i][1]]))

(* t with the block p written at the indexed position; offset 0 and p's    *)
(* own size along a dimension whose range is omitted or <<0, 0>>           *)
Patch(t, index, p) ==
  LET c == Complete(index, p.dims)
      inside(j) == \A i \in 1..Len(j) : c[i][1] <= j[i] /\ j[i] < c[i][2]
  IN Mk(t.dims, LAMBDA j : IF inside(j) THEN At(p, [i \in 1..Len(j) |-> j[i] - c[i][1]]) ELSE At(t, j))

Transpose(t) == Mk(SwapLast2(t.dims), LAMBDA j : At(t, SwapLast2(j)))

(* same row-major element sequence under another shape *)
Reshape(t, shape) == [dims |-> shape, data |-> t.data]
UnSqueeze(t, dim) == Reshape(t, InsDim(t.dims, dim + 1, 1))              \* dim is 0-based, as in the API
Squeeze(t, dim) == Reshape(t, DropDim(t.dims, dim + 1))
Flatten(t, dim) == Reshape(t, Prefix(t.dims, dim) \o <<Prod(SubSeq(t.dims, dim + 1, Len(t.dims)))>>)

Broadcast(t, shape) == Mk(shape, LAMBDA j : At(t, BSource(j, t.dims, shape)))

(* ts: a sequence of tensors laid end to end along dim (0-based) *)
RECURSIVE OffsetOf(_, _, _)
OffsetOf(ts, dim, n) == IF n = 0 THEN 0 ELSE OffsetOf(ts, dim, n - 1) + ts[n].dims[dim + 1]
Concat(ts, dim) ==
  LET total == OffsetOf(ts, dim, Len(ts))
      which(c) == CHOOSE n \in 1..Len(ts) : OffsetOf(ts, dim, n - 1) <= c /\ c < OffsetOf(ts, dim, n)
  IN Mk(SetDim(ts[1].dims, dim + 1, total),
        LAMBDA j : LET n == which(j[dim + 1])
                   IN At(ts[n], SetDim(j, dim + 1, j[dim + 1] - OffsetOf(ts, dim, n - 1))))

(* -------------------------------- reductions ----------------------------- *)

(* the statistic of a sequence of terms *)
SumS(s) == SumL(Zero, s)
AvgS(s) == Div(SumS(s), QI(Len(s)))
VarS(s) == IF Len(s) = 1 THEN Zero
           ELSE LET m == AvgS(s)
                IN Div(SumL(Zero, [i \in DOMAIN s |-> Pow(Sub(s[i], m), Two)]), QI(Len(s) - 1))
StdS(s) == LET v == VarS(s) IN IF v = Zero THEN Zero ELSE Fn("sqrt", v)
Stat(op, s) == CASE op = "sum" -> SumS(s)
                 [] op = "max" -> MaxL(s)
                 [] op = "min" -> MinL(s)
                 [] op = "avg" -> AvgS(s)
                 [] op = "mean" -> AvgS(s)
                 [] op = "var" -> VarS(s)
                 [] op = "std" -> StdS(s)

StatOps == {"sum", "max", "min", "avg", "var", "std", "mean"}
AlongOps == {"sumalong", "maxalong", "minalong", "avgalong", "varalong", "stdalong", "meanalong"}
AlongStat(op) == CASE op = "sumalong" -> "sum" [] op = "maxalong" -> "max" [] op = "minalong" -> "min"
                   [] op = "avgalong" -> "avg" [] op = "varalong" -> "var" [] op = "stdalong" -> "std"
                   [] op = "meanalong" -> "mean"

(* whole-tensor statistic: a term *)
Reduce(op, t) == Stat(op, t.data)

(* statistic of every one-dimensional fibre along dim (0-based) *)
ReduceAlong(op, t, dim) ==
  Mk(DropDim(t.dims, dim + 1),
     LAMBDA j : Stat(op, [p \in 1..t.dims[dim + 1] |-> At(t, InsDim(j, dim + 1, p - 1))]))

(* ------------------------------- element-wise ---------------------------- *)

UnaryFns == {"exp", "log", "sin", "cos", "tan", "sinh", "cosh", "tanh"}
Unary(op, k, t) ==
  CASE op = "scale" -> Map1(LAMBDA x : Mul(k, x), t)
    [] op = "pow" -> Map1(LAMBDA x : Pow(x, k), t)
    [] op \in UnaryFns -> Map1(LAMBDA x : Fn(op, x), t)

SameShapeOps == CmpOps \cup {"elmax", "elmin"}
Binary(op, a, b) ==
  CASE op \in CmpOps -> Map2(LAMBDA x, y : Cmp(op, x, y), a, b)
    [] op = "elmax" -> Map2(MaxV, a, b)
    [] op = "elmin" -> Map2(MinV, a, b)
    [] op = "add" -> Map2(Add, a, b)
    [] op = "sub" -> Map2(Sub, a, b)
    [] op = "mul" -> Map2(Mul, a, b)
    [] op = "div" -> Map2(Div, a, b)

ArithOps == {"add", "sub", "mul", "div"}

(* implicitly broadcasting arithmetic: both operands expanded to the common shape *)
Arith(op, a, b) == LET t == BTarget(a.dims, b.dims) IN Binary(op, Broadcast(a, t), Broadcast(b, t))

(* contraction of the last dimension after expanding the operands against each other *)
Dot(a, b) ==
  LET t == BTarget(a.dims, b.dims)
      A == Broadcast(a, t)
      B == Broadcast(b, t)
      n == Len(t)
  IN Mk(Prefix(t, n - 1),
        LAMBDA j : SumL(Zero, [p \in 1..t[n] |-> Mul(At(A, j \o <<p - 1>>), At(B, j \o <<p - 1>>))]))

(* matrix product of the trailing two dimensions for every index of the     *)
(* leading (batch) dimensions, the batch dimensions expanded against each   *)
(* other                                                                     *)
MatMul(a, b) ==
  LET ra == Len(a.dims)
      rb == Len(b.dims)
      batch == BTarget(Prefix(a.dims, ra - 2), Prefix(b.dims, rb - 2))
      nb == Len(batch)
      m == a.dims[ra - 1]
      n == a.dims[ra]
      k == b.dims[rb]
      A == Broadcast(a, batch \o <<m, n>>)
      B == Broadcast(b, batch \o <<n, k>>)
  IN Mk(batch \o <<m, k>>,
        LAMBDA j : LET bj == Prefix(j, nb)
                   IN SumL(Zero, [p \in 1..n |-> Mul(At(A, bj \o <<j[nb + 1], p - 1>>),
                                                     At(B, bj \o <<p - 1, j[nb + 2]>>))]))

(* Equals: TRUE exactly when every position compares equal (literal data only) *)
EqualsT(a, b) == \A p \in DOMAIN a.data : Cmp("eq", a.data[p], b.data[p]) = One

(* ------------------------------ preconditions ---------------------------- *)
(* ad: the sequence of operand shapes; par: the parameter record             *)

DimIn(d, lo, hi) == lo <= d /\ d <= hi

ConstructorOps == {"full", "zeros", "ones", "eye"}

Pre(op, par, ad) ==
  CASE op \in {"full", "zeros", "ones"} -> ValidDims(par.shape)
    [] op = "eye" -> par.dim > 0
    [] op = "slice" -> SliceIndexOK(par.index, ad[1])
    [] op = "patch" -> PatchIndexOK(par.index, ad[2], ad[1])
    [] op = "transpose" -> Len(ad[1]) >= 2
    [] op = "reshape" -> ValidDims(par.shape) /\ Prod(par.shape) = Prod(ad[1])
    [] op = "unsqueeze" -> DimIn(par.dim, 0, Len(ad[1]))
    [] op = "squeeze" -> DimIn(par.dim, 0, Len(ad[1]) - 1) /\ ad[1][par.dim + 1] = 1
    [] op = "flatten" -> DimIn(par.dim, 0, Len(ad[1]) - 1)
    [] op = "broadcast" -> ValidDims(par.shape) /\ BroadcastOK(ad[1], par.shape)
    [] op = "concat" -> /\ Len(ad) >= 2
                        /\ \A i \in DOMAIN ad : Len(ad[i]) >= 1 /\ Len(ad[i]) = Len(ad[1])
                        /\ DimIn(par.dim, 0, Len(ad[1]) - 1)
                        /\ \A i \in DOMAIN ad : \A d \in DOMAIN ad[1] : d = par.dim + 1 \/ ad[i][d] = ad[1][d]
    [] op \in AlongOps -> DimIn(par.dim, 0, Len(ad[1]) - 1)
    [] op \in {"scale", "pow"} \cup UnaryFns -> TRUE
    [] op \in SameShapeOps \cup {"equals"} -> ad[1] = ad[2]
    [] op \in ArithOps -> BCompatible(ad[1], ad[2])
    [] op = "dot" -> /\ Len(ad[1]) >= 1 /\ Len(ad[2]) >= 1
                     /\ ad[1][Len(ad[1])] = ad[2][Len(ad[2])]
                     /\ BCompatible(ad[1], ad[2])
    [] op = "matmul" -> /\ Len(ad[1]) >= 2 /\ Len(ad[2]) >= 2
                        /\ ad[1][Len(ad[1])] = ad[2][Len(ad[2]) - 1]
                        /\ BCompatible(Prefix(ad[1], Len(ad[1]) - 2), Prefix(ad[2], Len(ad[2]) - 2))

(* the result of an operation whose precondition holds *)
Apply(op, par, args) ==
  CASE op = "full" -> Full(par.shape, par.k)
    [] op = "zeros" -> Full(par.shape, Zero)
    [] op = "ones" -> Full(par.shape, One)
    [] op = "eye" -> Eye(par.dim)
    [] op = "slice" -> Slice(args[1], par.index)
    [] op = "patch" -> Patch(args[1], par.index, args[2])
    [] op = "transpose" -> Transpose(args[1])
    [] op = "reshape" -> Reshape(args[1], par.shape)
    [] op = "unsqueeze" -> UnSqueeze(args[1], par.dim)
    [] op = "squeeze" -> Squeeze(args[1], par.dim)
    [] op = "flatten" -> Flatten(args[1], par.dim)
    [] op = "broadcast" -> Broadcast(args[1], par.shape)
    [] op = "concat" -> Concat(args, par.dim)
    [] op \in AlongOps -> ReduceAlong(AlongStat(op), args[1], par.dim)
    [] op \in {"scale", "pow"} \cup UnaryFns -> Unary(op, par.k, args[1])
    [] op \in SameShapeOps -> Binary(op, args[1], args[2])
    [] op \in ArithOps -> Arith(op, args[1], args[2])
    [] op = "dot" -> Dot(args[1], args[2])
    [] op = "matmul" -> MatMul(args[1], args[2])

(* operations that are differentiable (a tracked operand makes the result tracked) *)
DiffOps == {"slice", "patch", "transpose", "reshape", "unsqueeze", "squeeze", "flatten", "broadcast", "concat"}
           \cup AlongOps \cup {"scale", "pow"} \cup UnaryFns \cup {"elmax", "elmin"} \cup ArithOps \cup {"dot", "matmul"}

NoPar == [dim |-> 0]

=============================================================================
