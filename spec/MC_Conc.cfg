SPECIFICATION Spec
CONSTANTS
  NG = 2
  Proviso = TRUE
  Menu <- MC_Menu
VIEW View
INVARIANTS NoRace Deterministic SharedUntouched
CHECK_DEADLOCK FALSE
