--------------------------------- MODULE Big ---------------------------------
(***************************************************************************)
(* Tensors too large to spell out element by element.                      *)
(*                                                                         *)
(* Implementations switch strategy past size thresholds (blocked kernels,  *)
(* work split over goroutines once a tensor has 1024 / 4096 / 16384        *)
(* elements); the exhaustive small grids cannot reach those paths, and a   *)
(* term per element of a 5000-element result would be millions of nodes.   *)
(* This module gives the result of an operation as ONE parametric term:    *)
(* a template over                                                         *)
(*   the position p of the output element (0-based, row-major),            *)
(*   integer index expressions (+, *, div, mod over p, bound variables     *)
(*   and literals),                                                        *)
(*   [k |-> "sx"]   the operand element at a computed position,            *)
(*   [k |-> "bs"]   sum / max / min of a body over a range of a bound      *)
(*                  variable (never unrolled),                             *)
(*   [k |-> "let"]  a shared sub-value (the mean inside a variance),        *)
(*   [k |-> "if"]   a choice on an integer comparison of index expressions  *)
(*                  (which operand of a Concat / Patch a position reads).   *)
(* The templates are NOT trusted: Unroll instantiates a template at a      *)
(* concrete position into an ordinary term, and TLC checks on the small    *)
(* grid that for every operation, shape and position the unrolled template *)
(* is (syntactically) the element the declarative definition in TensorOps  *)
(* gives (Gen_Big.tla, ASSUME TemplatesAgree).  The harness then evaluates *)
(* the templates at sizes the definitions cannot be enumerated at.         *)
(***************************************************************************)
EXTENDS TensorOps, TLC

(* ---- index expressions ---- *)
IL(n) == [k |-> "il", n |-> n]
IV(v) == [k |-> "iv", v |-> v]
IOp(f, a, b) == [k |-> "io", f |-> f, a |-> a, b |-> b]
IAdd(a, b) == IF a.k = "il" /\ b.k = "il" THEN IL(a.n + b.n) ELSE IF a = IL(0) THEN b ELSE IF b = IL(0) THEN a ELSE IOp("+", a, b)
IMul(a, b) == IF a.k = "il" /\ b.k = "il" THEN IL(a.n * b.n) ELSE IF a = IL(1) THEN b ELSE IF b = IL(1) THEN a ELSE IF a = IL(0) \/ b = IL(0) THEN IL(0) ELSE IOp("*", a, b)
IDiv(a, b) == IF b = IL(1) THEN a ELSE IOp("/", a, b)
IMod(a, b) == IF b = IL(1) THEN IL(0) ELSE IOp("%", a, b)
P == IV("p")                                          \* the position of the output element

RECURSIVE IEval(_, _)
IEval(e, env) == CASE e.k = "il" -> e.n
                   [] e.k = "iv" -> env[e.v]
                   [] e.k = "io" -> LET a == IEval(e.a, env) b == IEval(e.b, env)
                                    IN CASE e.f = "+" -> a + b [] e.f = "*" -> a * b [] e.f = "/" -> a \div b [] e.f = "%" -> a % b

(* ---- parametric terms ---- *)
SymAt(t, ix) == [k |-> "sx", t |-> t, ix |-> ix]
BigOp(f, v, lo, hi, body) == [k |-> "bs", f |-> f, v |-> v, lo |-> lo, hi |-> hi, body |-> body]     \* f in {"sum", "max", "min"}; lo..hi inclusive
Let(v, val, body) == [k |-> "let", v |-> v, val |-> val, body |-> body]
RV(v) == [k |-> "rv", v |-> v]

TMemo(keys, body) == [k |-> "memo", keys |-> keys, body |-> body]       \* body depends on the position only through the index expressions `keys` (evaluation hint; transparent to Unroll)
TIf(a, b, th, el) == [k |-> "if", a |-> a, b |-> b, t |-> th, e |-> el]          \* IF a < b THEN th ELSE el  (a, b index expressions)

(* applications inside templates are built without folding (nothing is literal) *)
TApp(f, args) == App(f, args)

(* instantiate a template at concrete index bindings into an ordinary term of Val *)
RECURSIVE Unroll(_, _, _)
Unroll(t, ienv, renv) ==
  CASE t.k \in {"q", "s", "c"} -> t
    [] t.k = "sx" -> Sym(t.t, IEval(t.ix, ienv) + 1)
    [] t.k = "rv" -> renv[t.v]
    [] t.k = "memo" -> Unroll(t.body, ienv, renv)
    [] t.k = "if" -> IF IEval(t.a, ienv) < IEval(t.b, ienv) THEN Unroll(t.t, ienv, renv) ELSE Unroll(t.e, ienv, renv)
    [] t.k = "let" -> Unroll(t.body, ienv, IF renv = <<>> THEN (t.v :> Unroll(t.val, ienv, renv)) ELSE (t.v :> Unroll(t.val, ienv, renv)) @@ renv)
    [] t.k = "bs" -> LET seq == [i \in 1..(t.hi - t.lo + 1) |-> Unroll(t.body, (t.v :> (t.lo + i - 1)) @@ ienv, renv)]
                     IN (CASE t.f = "sum" -> SumL(Zero, seq) [] t.f = "max" -> MaxL(seq) [] t.f = "min" -> MinL(seq))
    [] t.k = "a" ->
         LET a == [i \in DOMAIN t.a |-> IF t.f = "pow" /\ i = 2 THEN t.a[2] ELSE Unroll(t.a[i], ienv, renv)]
         IN CASE t.f = "add" -> Add(a[1], a[2]) [] t.f = "sub" -> Sub(a[1], a[2]) [] t.f = "mul" -> Mul(a[1], a[2])
              [] t.f = "div" -> Div(a[1], a[2]) [] t.f = "neg" -> Neg(a[1]) [] t.f = "pow" -> Pow(a[1], a[2])
              [] t.f = "max" -> MaxV(a[1], a[2]) [] t.f = "min" -> MinV(a[1], a[2])
              [] t.f \in CmpOps -> Cmp(t.f, a[1], a[2])
              [] OTHER -> Fn(t.f, a[1])

(* ---- templates of the operations (result dims + the element at position P) ---- *)

TUnary(op, kk) ==
  LET x == SymAt("a", P)
  IN CASE op = "scale" -> TApp("mul", <<kk, x>>)
       [] op = "pow" -> TApp("pow", <<x, kk>>)
       [] op = "relu" -> TApp("max", <<Zero, x>>)
       [] op = "sigmoid" -> TApp("div", <<One, TApp("add", <<One, TApp("exp", <<TApp("neg", <<x>>)>>)>>)>>)
       [] OTHER -> TApp(op, <<x>>)

(* b's shape is a suffix of a's (or equal): b is repeated over the leading dimensions *)
TBinary(op, adims, bdims) ==
  LET x == SymAt("a", P)
      y == SymAt("b", IF adims = bdims THEN P ELSE IMod(P, IL(Prod(bdims))))
  IN CASE op = "elmax" -> TApp("max", <<x, y>>) [] op = "elmin" -> TApp("min", <<x, y>>) [] OTHER -> TApp(op, <<x, y>>)

TStat(op, n, elem(_)) ==        \* elem(q): the q-th element (q an index expression) of the fibre
  LET q == IV("q")
      sum == BigOp("sum", "q", 0, n - 1, elem(q))
      mean == TApp("div", <<sum, QI(n)>>)
      var == IF n = 1 THEN Zero
             ELSE Let("m", mean, TApp("div", <<BigOp("sum", "q", 0, n - 1, TApp("pow", <<TApp("sub", <<elem(q), RV("m")>>), Two>>)), QI(n - 1)>>))
  IN CASE op = "sum" -> sum [] op \in {"avg", "mean"} -> mean
       [] op = "max" -> BigOp("max", "q", 0, n - 1, elem(q)) [] op = "min" -> BigOp("min", "q", 0, n - 1, elem(q))
       [] op = "var" -> var [] op = "std" -> IF n = 1 THEN Zero ELSE TApp("sqrt", <<var>>)

TWhole(op, dims) == TStat(op, Prod(dims), LAMBDA q : SymAt("a", q))

(* fibre along dim (0-based) of the output element at P *)
TAlong(op, dims, dim) ==
  LET n == dims[dim + 1]
      inner == Prod(SubSeq(dims, dim + 2, Len(dims)))
      o == IDiv(P, IL(inner))
      i == IMod(P, IL(inner))
  IN TStat(op, n, LAMBDA q : SymAt("a", IAdd(IAdd(IMul(o, IL(n * inner)), IMul(q, IL(inner))), i)))

(* Softmax along dim (0-based): e^x over the sum of e^x of the element's fibre *)
TSoftmax(dims, dim) ==
  LET n == dims[dim + 1]
      inner == Prod(SubSeq(dims, dim + 2, Len(dims)))
      o == IDiv(P, IL(n * inner))
      i == IMod(P, IL(inner))
  IN TApp("div", <<TApp("exp", <<SymAt("a", P)>>),
                   TMemo(<<o, i>>, BigOp("sum", "q", 0, n - 1, TApp("exp", <<SymAt("a", IAdd(IAdd(IMul(o, IL(n * inner)), IMul(IV("q"), IL(inner))), i))>>)))>>)

(* [m, n] x [n, k] *)
TMatMul(m, n, kk) ==
  LET r == IDiv(P, IL(kk)) c == IMod(P, IL(kk)) q == IV("q")
  IN BigOp("sum", "q", 0, n - 1, TApp("mul", <<SymAt("a", IAdd(IMul(r, IL(n)), q)), SymAt("b", IAdd(IMul(q, IL(kk)), c))>>))

(* gradient of the bias b (shape <<O>>) in z = (x + b) * g, x and g of shape <<B, O>>: the sum of g over the batch *)
TBiasGrad(B, O) == BigOp("sum", "q", 0, B - 1, SymAt("g", IAdd(IMul(IV("q"), IL(O)), P)))
(* the same under the recorded deviation broadcast_grad_mean *)
TBiasGradAsIs(B, O) == TApp("div", <<TBiasGrad(B, O), QI(B)>>)

(* ---- data movement: which operand element an output position reads ---- *)
StrideOf(dims, k) == Prod(SubSeq(dims, k + 1, Len(dims)))
Coord(dims, k, p) == IMod(IDiv(p, IL(StrideOf(dims, k))), IL(dims[k]))             \* k-th coordinate (1-based dim) of position p
RECURSIVE FlatIx(_, _, _)
FlatIx(dims, coords, k) == IF k > Len(dims) THEN IL(0) ELSE IAdd(IMul(coords[k], IL(StrideOf(dims, k))), FlatIx(dims, coords, k + 1))
OutCoords(odims) == [k \in DOMAIN odims |-> Coord(odims, k, P)]

TSame(t) == SymAt(t, P)                                                               \* Reshape / Flatten / Squeeze / UnSqueeze keep the row-major order
TTransposeN(nm, dims) ==
  LET r == Len(dims)
      od == [k \in 1..r |-> IF k = r - 1 THEN dims[r] ELSE IF k = r THEN dims[r - 1] ELSE dims[k]]
      c == OutCoords(od)
  IN SymAt(nm, FlatIx(dims, [k \in 1..r |-> IF k = r - 1 THEN c[r] ELSE IF k = r THEN c[r - 1] ELSE c[k]], 1))
TTranspose(dims) == TTransposeN("a", dims)
(* ranges: one <<lo, hi>> per dimension (hi exclusive) *)
SliceDims(ranges) == [k \in DOMAIN ranges |-> ranges[k][2] - ranges[k][1]]
TSliceN(nm, dims, ranges) ==
  LET c == OutCoords(SliceDims(ranges))
  IN SymAt(nm, FlatIx(dims, [k \in DOMAIN dims |-> IAdd(c[k], IL(ranges[k][1]))], 1))
TSlice(dims, ranges) == TSliceN("a", dims, ranges)
TBroadcastTo(dims, target) ==
  LET c == OutCoords(target)  off == Len(target) - Len(dims)
  IN SymAt("a", FlatIx(dims, [k \in DOMAIN dims |-> IF dims[k] = 1 THEN IL(0) ELSE c[k + off]], 1))
(* Concat of a and b along dim (1-based) *)
TConcat(adims, bdims, dim) ==
  LET od == [adims EXCEPT ![dim] = adims[dim] + bdims[dim]]
      c == OutCoords(od)
  IN TIf(c[dim], IL(adims[dim]),
         SymAt("a", FlatIx(adims, c, 1)),
         SymAt("b", FlatIx(bdims, [c EXCEPT ![dim] = IAdd(c[dim], IL(0 - adims[dim]))], 1)))
(* Patch: the block `ranges` of a replaced by u (u's dims = SliceDims(ranges)) *)
TPatchGen(dims, ranges, outside, inside(_)) ==             \* inside(ix): the term for the block element at flat position ix of the block
  LET c == OutCoords(dims)
      inner == inside(FlatIx(SliceDims(ranges), [k \in DOMAIN dims |-> IAdd(c[k], IL(0 - ranges[k][1]))], 1))
      RECURSIVE W(_)
      W(k) == IF k > Len(dims) THEN inner
              ELSE TIf(c[k], IL(ranges[k][1]), outside, TIf(c[k], IL(ranges[k][2]), W(k + 1), outside))
  IN W(1)
TPatch(dims, ranges) == TPatchGen(dims, ranges, SymAt("a", P), LAMBDA ix : SymAt("u", ix))
TEye(n) == LET i == IDiv(P, IL(n)) j == IMod(P, IL(n)) IN TIf(i, j, Zero, TIf(j, i, Zero, One))

(* ---- gradients with an upstream gradient g (the root is result * g, g untracked) ---- *)
(* a term over Sym(t, 1) symbols turned into a template: every symbol replaced by the template m[<<t, 1>>], nothing folded *)
RECURSIVE Lift(_, _)
Lift(t, m) == CASE t.k = "s" -> m[<<t.t, t.i>>]
                [] t.k = "a" -> [t EXCEPT !.a = [i \in DOMAIN t.a |-> IF t.f = "pow" /\ i = 2 THEN t.a[i] ELSE Lift(t.a[i], m)]]
                [] OTHER -> t
(* element-wise: the derivative of the one-element definition, by the same symbolic differentiation as everywhere else *)
DUnary(op, kk) == Lift(Diff(Unary(op, kk, SymT("a", <<1>>)).data[1], Sym("a", 1)), (<<"a", 1>> :> SymAt("a", P)))
DBinary(op, wrt) == Lift(Diff(Binary(op, SymT("a", <<1>>), SymT("b", <<1>>)).data[1], Sym(wrt, 1)),
                         (<<"a", 1>> :> SymAt("a", P)) @@ (<<"b", 1>> :> SymAt("b", P)))
TGradElem(d) == TApp("mul", <<d, SymAt("g", P)>>)
(* MatMul [m,n] x [n,k], g of shape [m,k] *)
TMatMulGradA(m, n, kk) == LET r == IDiv(P, IL(n)) q == IMod(P, IL(n)) c == IV("c")
                          IN BigOp("sum", "c", 0, kk - 1, TApp("mul", <<SymAt("b", IAdd(IMul(q, IL(kk)), c)), SymAt("g", IAdd(IMul(r, IL(kk)), c))>>))
TMatMulGradB(m, n, kk) == LET q == IDiv(P, IL(kk)) c == IMod(P, IL(kk)) r == IV("r")
                          IN BigOp("sum", "r", 0, m - 1, TApp("mul", <<SymAt("a", IAdd(IMul(r, IL(n)), q)), SymAt("g", IAdd(IMul(r, IL(kk)), c))>>))
(* reductions along dim (0-based): the position of the reduced element's fibre in g, and the fibre itself *)
TAlongGrad(op, dims, dim) ==
  LET n == dims[dim + 1]
      inner == Prod(SubSeq(dims, dim + 2, Len(dims)))
      o == IDiv(P, IL(n * inner))
      i == IMod(P, IL(inner))
      gp == SymAt("g", IAdd(IMul(o, IL(inner)), i))
      elem(q) == SymAt("a", IAdd(IAdd(IMul(o, IL(n * inner)), IMul(q, IL(inner))), i))
      mean == TApp("div", <<BigOp("sum", "q", 0, n - 1, elem(IV("q"))), QI(n)>>)
  IN CASE op = "sum" -> gp
       [] op \in {"avg", "mean"} -> TApp("div", <<gp, QI(n)>>)
       [] op = "var" -> TApp("mul", <<TApp("div", <<TApp("mul", <<Two, TApp("sub", <<SymAt("a", P), mean>>)>>), QI(n - 1)>>), gp>>)

(* SGD: w - lr * g, with g = c for the graph y = w * c *)
TSgd(lr) == TApp("sub", <<SymAt("w", P), TApp("mul", <<lr, SymAt("c", P)>>)>>)

=============================================================================
