------------------------------ MODULE Gen_C02 ------------------------------
(***************************************************************************)
(* C02: the backward rule of every differentiable operation is its         *)
(* vector-Jacobian product.                                                *)
(*                                                                         *)
(* For each of the 33 operations (Broadcast and implicit expansion are     *)
(* C07), every operand shape of the grid, every valid argument and every   *)
(* non-empty subset of tracked operands, the program is                    *)
(*        y = op(operands) ;  z = y * g      (g: untracked, y's shape)     *)
(* and back-propagation starts from z, which realises an arbitrary         *)
(* upstream weighting g.  The expected gradients are Prog!BPOutcome, i.e.  *)
(* d(sum z)/d(operand element) obtained by symbolic differentiation of the *)
(* DEFINITION of the operation (TensorOps) - the specification contains no *)
(* backward rule.  BackPropagate must succeed, every tracked operand gets  *)
(* a finite gradient of its own shape, untracked operands get none.        *)
(***************************************************************************)
EXTENDS Emit

(* sizes beyond the small grid: loops unrolled or special-cased for a size show only here *)
Big == {<<5>>, <<7>>, <<4, 5>>, <<5, 1>>, <<1, 6>>, <<2, 4, 3>>, <<4, 1, 2, 5>>}
Grid == (IF Thorough THEN Shapes(3, 3) \cup Shapes(5, 2)
         ELSE Shapes(2, 2) \cup {<<3>>, <<2, 3>>, <<3, 1>>, <<2, 1, 2>>, <<1, 2, 1, 2, 2>>}) \cup {<<5>>, <<4, 5>>, <<2, 4, 3>>, <<9, 2>>, <<2, 11>>, <<17>>}
GridSeq == SetToSeq(Grid)
EGrid == IF Thorough THEN SetToSeq(Shapes(3, 2) \cup {<<3>>, <<2, 3>>, <<1, 2, 1, 2, 2>>})
         ELSE <<<<>>, <<3>>, <<2, 2>>, <<1, 2, 1, 2, 2>>, <<7>>, <<4, 5>>, <<17>>, <<18, 2>>>>          \* element-wise operations: index logic is trivial

PowKs == <<QI(-2), QI(-1), Zero, One, Two, QI(3), Half, QI(4), Q(5, 2)>>          \* 4 and 5/2: differentiable at base 0 as well (derivative 0)
ScaleKs == <<Two, Q(-1, 2), Zero, One>>
Fns == <<"exp", "log", "sin", "cos", "tan", "sinh", "cosh", "tanh">>

UDom(op, k) == CASE op = "log" -> "pos"
                 [] op = "tan" -> "cosok"
                 [] op = "pow" -> (IF k.d # 1 THEN (IF k.n > k.d THEN "pos,poszero" ELSE "pos") ELSE IF k.n < 0 THEN "nz" ELSE IF k.n <= 2 \/ k.n = 4 THEN "zero" ELSE "any")
                 [] op \in {"exp", "sinh", "cosh"} -> "any,small,big"        \* big: up to +-700, where e^x is still finite
                 [] op = "tanh" -> "any,far"                                 \* far: |x| up to 300, where tanh x is 1 in floating point and its derivative is not 0
                 [] OTHER -> "any"

UnaryDescs == Flatten2([i \in DOMAIN EGrid |->
                 [j \in DOMAIN ScaleKs |-> <<"u", "scale", EGrid[i], ScaleKs[j]>>]
                 \o [j \in DOMAIN PowKs |-> <<"u", "pow", EGrid[i], PowKs[j]>>]
                 \o [f \in DOMAIN Fns |-> <<"u", Fns[f], EGrid[i], One>>]])

Subsets2 == <<<<TRUE, TRUE>>, <<TRUE, FALSE>>, <<FALSE, TRUE>>>>
BinOps == <<"elmax", "elmin", "add", "sub", "mul", "div">>
BinDescs == Flatten2([i \in DOMAIN EGrid |-> Flatten2([f \in DOMAIN BinOps |->
               [t \in 1..3 |-> <<"b", BinOps[f], EGrid[i], EGrid[i], Subsets2[t]>>]])])

DotShapes == SetToSeq({g \in Grid : Len(g) >= 1})
DotDescs == Flatten2([i \in DOMAIN DotShapes |-> [t \in 1..3 |-> <<"b", "dot", DotShapes[i], DotShapes[i], Subsets2[t]>>]])
MMBatch == IF Thorough THEN SetToSeq(Shapes(3, 2)) ELSE <<<<>>, <<2>>, <<1, 2>>, <<2, 1, 2>>>>
MNK == IF Thorough THEN SetToSeq((1..3) \X (1..3) \X (1..3)) ELSE <<<<1, 1, 1>>, <<2, 3, 2>>, <<3, 1, 2>>, <<1, 2, 3>>, <<2, 2, 1>>, <<4, 5, 4>>, <<5, 1, 6>>, <<3, 10, 2>>, <<9, 9, 2>>>>
MMDescs == Flatten2([i \in DOMAIN MMBatch |-> Flatten2([j \in DOMAIN MNK |->
              [t \in 1..3 |-> <<"b", "matmul", MMBatch[i] \o <<MNK[j][1], MNK[j][2]>>, MMBatch[i] \o <<MNK[j][2], MNK[j][3]>>, Subsets2[t]>>]])])

AOps == <<"sumalong", "maxalong", "minalong", "avgalong", "varalong", "stdalong", "meanalong">>
AlongDescs == Flatten2([i \in DOMAIN GridSeq |-> Flatten2([d \in 1..Len(GridSeq[i]) |->
                 [f \in DOMAIN AOps |-> <<"d", AOps[f], GridSeq[i], d - 1>>]])])

ShapeDescs == Flatten2([i \in DOMAIN GridSeq |-> LET g == GridSeq[i] IN
                 (IF Len(g) >= 2 THEN << <<"d", "transpose", g, 0>> >> ELSE <<>>)
                 \o [d \in 1..(Len(g) + 1) |-> <<"d", "unsqueeze", g, d - 1>>]
                 \o [d \in 1..Len(g) |-> <<"d", "flatten", g, d - 1>>]
                 \o SelectSeq([d \in 1..Len(g) |-> <<"d", "squeeze", g, d - 1>>], LAMBDA e : g[e[4] + 1] = 1)
                 \o << <<"r", "reshape", g, <<Prod(g)>>>>, <<"r", "reshape", g, <<1, Prod(g)>>>> >>
                 \o (IF Len(g) >= 2 THEN << <<"r", "reshape", g, SwapLast2(g)>> >> ELSE <<>>)])

(* index forms as in C06: full product for rank <= 2, one dimension varied above *)
RangesOf(n) == {<<0, 0>>} \cup {r \in (0..(n - 1)) \X (1..n) : r[1] < r[2]}
RECURSIVE Indexes(_, _)
Indexes(dims, len) == IF len = 0 THEN {<<>>} ELSE {Append(ix, r) : ix \in Indexes(dims, len - 1), r \in RangesOf(dims[len])}
AllIndexes(dims) == UNION {Indexes(dims, l) : l \in 0..Len(dims)}
VariedIndexes(dims) ==
  UNION {{[i \in 1..l |-> IF i = d THEN r ELSE IF (i + d) % 2 = 0 THEN <<0, 0>> ELSE <<0, dims[i]>>] : r \in RangesOf(dims[d])}
         : d \in 1..Len(dims), l \in 1..Len(dims)}
SliceIdx(dims) == IF Len(dims) <= 2 THEN AllIndexes(dims) ELSE {ix \in VariedIndexes(dims) : SliceIndexOK(ix, dims)} \cup {<<>>}
SubShapes(dims) == IF Len(dims) <= 2 THEN {s \in [1..Len(dims) -> 1..3] : \A i \in DOMAIN dims : s[i] <= dims[i]}
                   ELSE {dims} \cup {SetDim(dims, d, 1) : d \in DOMAIN dims}
SliceDescs == Flatten2([i \in DOMAIN GridSeq |->
                LET s == SetToSeq(SliceIdx(GridSeq[i])) IN [j \in DOMAIN s |-> <<"x", "slice", GridSeq[i], s[j]>>]])
PatchDescs == Flatten2([i \in DOMAIN GridSeq |->
                LET srcs == SetToSeq(SubShapes(GridSeq[i]))
                IN Flatten2([k \in DOMAIN srcs |->
                      LET ix == SetToSeq({x \in SliceIdx(GridSeq[i]) : PatchIndexOK(x, srcs[k], GridSeq[i])})
                      IN [j \in DOMAIN ix |-> <<"p", "patch", GridSeq[i], srcs[k], ix[j], Subsets2[((j + k) % 3) + 1]>>]])])
Subsets3 == <<<<TRUE, TRUE, TRUE>>, <<FALSE, TRUE, FALSE>>, <<TRUE, FALSE, TRUE>>, <<FALSE, FALSE, TRUE>>>>
ConcatDescs == Flatten2([i \in DOMAIN GridSeq |-> Flatten2([d \in 1..Len(GridSeq[i]) |->
                 LET g == GridSeq[i]
                 IN [t \in 1..3 |-> <<"c", "concat", <<g, SetDim(g, d, 1)>>, d - 1, Subsets2[t]>>]
                    \o [t \in 1..2 |-> <<"c", "concat", <<SetDim(g, d, 2), g, SetDim(g, d, 3)>>, d - 1, Subsets3[((t + i) % 4) + 1]>>]])])

(* Two operand shapes in ONE graph (hence one process, one back-propagation) that collide under the usual ways of       *)
(* folding a shape into a cache key: sum of (size * B^position) from either end for the bases B below, and the decimal  *)
(* digits written without a separator. Results or helper tensors memoised per "shape" then meet the wrong shape.         *)
Bases == <<31, 32, 33, 37, 64>>        \* larger bases make the symbolic gradient of the summed root too expensive for TLC
PairShapes == Flatten2([i \in DOMAIN Bases |-> << <<<<2, 1>>, <<1, Bases[i] + 1>>>>, <<<<1, 2>>, <<Bases[i] + 1, 1>>>> >>])
              \o << <<<<1, 12>>, <<11, 2>>>>, <<<<12>>, <<1, 2>>>>, <<<<2, 3>>, <<3, 2>>>>, <<<<6>>, <<2, 3>>>>, <<<<1, 4>>, <<2, 3>>>> >>
PairOps == << <<"pow", [k |-> Zero]>>, <<"slice", [index |-> <<<<0, 1>>>>]>>, <<"pow", [k |-> Two]>>, <<"varalong", [dim |-> 0]>> >>
PairDescs == Flatten2([i \in DOMAIN PairShapes |-> [o \in DOMAIN PairOps |-> <<"pair", PairOps[o][1], PairOps[o][2], PairShapes[i][1], PairShapes[i][2]>>]])

(* the SAME tracked tensor in both operand slots: its gradient is the sum of both partial derivatives *)
SelfGDescs == Flatten2([i \in 1..3 |-> [f \in 1..4 |-> <<"selfg", <<"add", "sub", "mul", "div">>[f], <<<<>>, <<3>>, <<2, 2>>>>[i]>>]])
              \o << <<"selfg", "matmul", <<2, 2>>>>, <<"selfg", "matmul", <<2, 3, 3>>>>, <<"selfg", "dot", <<3>>>>, <<"selfg", "dot", <<2, 2>>>> >>
All == PairDescs \o SelfGDescs \o UnaryDescs \o BinDescs \o DotDescs \o MMDescs \o AlongDescs \o ShapeDescs \o SliceDescs \o PatchDescs \o ConcatDescs
Descs == MyCases(All)

(* y = op(...), z = y * g, back-propagate from z.  n: number of operands *)
WithG(name, ins, doms, op, par, ydims) ==
  LET n == Len(ins)
      inputs == ins \o <<In("g", ydims, FALSE)>>
  IN MkCase("c02", name, inputs, doms \o <<"any">>,
            <<Ins(op, par, [k \in 1..n |-> k]), Ins("mul", NoPar, <<n + 2, n + 1>>)>>, <<n + 2>>, n + 3, FALSE)

YDims(op, par, dimsSeq) == OpApply(op, par, [k \in DOMAIN dimsSeq |-> SymT("t", dimsSeq[k])]).dims

BDom(op) == CASE op = "div" -> <<"any", "nz">>
              [] op \in {"elmax", "elmin"} -> <<"any,any,any,tinyd", "any,nearcopy,any,zero">>       \* also: next to a tie, where the operation is still differentiable
              [] OTHER -> <<"any", "any">>
ADom(op) == IF op \in {"maxalong", "minalong"} THEN "distinct,nearequal,tinyd" ELSE IF op = "stdalong" THEN "distinct,tinyspread,offsetd" ELSE "any,distinct,tinyspread,offsetd"

(* op on a and on b, both results summed to one scalar root *)
PairCase(op, par, s1, s2) ==
  LET r1 == Len(YDims(op, par, <<s1>>))  r2 == Len(YDims(op, par, <<s2>>))
      total(node, rank, base) ==                       \* Flatten(0) (rank >= 1), then SumAlong(0): a scalar; returns <<code, result node>>
        IF rank = 0 THEN <<<<>>, node>>
        ELSE <<<<Ins("flatten", [dim |-> 0], <<node>>), Ins("sumalong", [dim |-> 0], <<base + 1>>)>>, base + 2>>
      t1 == total(3, r1, 4)
      t2 == total(4, r2, 4 + Len(t1[1]))
      code == <<Ins(op, par, <<1>>), Ins(op, par, <<2>>)>> \o t1[1] \o t2[1] \o <<Ins("add", NoPar, <<t1[2], t2[2]>>)>>
      root == 2 + Len(code)
  IN MkCase("c02", "pair-" \o op, <<In("a", s1, TRUE), In("b", s2, TRUE)>>, <<"any,distinct", "any,distinct">>, code, <<3, 4>>, root, FALSE)

Build(d) ==
  CASE d[1] = "pair" -> PairCase(d[2], d[3], d[4], d[5])
    [] d[1] = "selfg" ->
         LET yd == YDims(d[2], NoPar, <<d[3], d[3]>>)
         IN MkCase("c02", d[2] \o "-same-object", <<In("a", d[3], TRUE), In("g", yd, FALSE)>>, <<IF d[2] = "div" THEN "nz" ELSE "any", "any">>,
                   <<Ins(d[2], NoPar, <<1, 1>>), Ins("mul", NoPar, <<3, 2>>)>>, <<3>>, 4, FALSE)
    [] d[1] = "u" -> WithG(d[2], <<In("a", d[3], TRUE)>>, <<UDom(d[2], d[4])>>, d[2], [k |-> d[4]], d[3])
    [] d[1] = "b" -> WithG(d[2], <<In("a", d[3], d[5][1]), In("b", d[4], d[5][2])>>, BDom(d[2]), d[2], NoPar,
                           YDims(d[2], NoPar, <<d[3], d[4]>>))
    [] d[1] = "d" -> WithG(d[2], <<In("a", d[3], TRUE)>>, <<ADom(d[2])>>, d[2], [dim |-> d[4]], YDims(d[2], [dim |-> d[4]], <<d[3]>>))
    [] d[1] = "r" -> WithG(d[2], <<In("a", d[3], TRUE)>>, <<"any">>, d[2], [shape |-> d[4]], d[4])
    [] d[1] = "x" -> WithG(d[2], <<In("a", d[3], TRUE)>>, <<"any">>, d[2], [index |-> d[4]], YDims(d[2], [index |-> d[4]], <<d[3]>>))
    [] d[1] = "p" -> WithG(d[2], <<In("a", d[3], d[6][1]), In("p", d[4], d[6][2])>>, <<"any", "any">>, d[2], [index |-> d[5]], d[3])
    [] d[1] = "c" -> LET ins == [k \in DOMAIN d[3] |-> In(<<"a", "b", "c">>[k], d[3][k], d[5][k])]
                     IN WithG(d[2], ins, [k \in DOMAIN ins |-> "any"], d[2], [dim |-> d[4]], YDims(d[2], [dim |-> d[4]], d[3]))

Cases == [i \in DOMAIN Descs |-> Build(Descs[i])]
ASSUME Write(Cases)
ASSUME PrintT(<<"generated", Len(Cases), "of", Len(All)>>)
=============================================================================
