------------------------------ MODULE Accuracy ------------------------------
(***************************************************************************)
(* The Accuracy metric: running counters over accumulated batches.         *)
(*                                                                         *)
(* Accumulate(yp, yt) with two rank-1 tensors of equal length is accepted: *)
(* total grows by the batch length, correct by the number of positions at  *)
(* which prediction and target are equal.  Any other call (nil tensor,     *)
(* wrong rank, mismatched lengths) is rejected and changes nothing.        *)
(* Result = 0 before anything was accepted, else correct / total.          *)
(*                                                                         *)
(* seenP / seenT are history variables: the concatenation of all accepted  *)
(* batches.  The property is stated against them, which makes partition    *)
(* invariance explicit: the counters are a function of the concatenation   *)
(* only, however it was split into calls.                                  *)
(***************************************************************************)
EXTENDS Integers, Sequences, FiniteSets, TLC, Json

CONSTANTS Labels,      \* label values (small integers standing for arbitrary floats)
          MaxBatch,    \* largest batch length
          MaxSeen,     \* bound on the number of positions accumulated
          MaxBad       \* bound on the number of rejected calls

VARIABLES total, correct, seenP, seenT, nbad, path
vars == <<total, correct, seenP, seenT, nbad, path>>
View == <<total, correct, nbad>>          \* the successor only depends on the counters
ViewFull == <<total, correct, seenP, seenT, nbad>>   \* everything but the witness path

Batches == UNION {[1..n -> Labels] : n \in 1..MaxBatch}
BadKinds == {"nil-pred", "nil-target", "rank0", "rank2", "length-mismatch"}

Matches(p, t) == Cardinality({i \in DOMAIN p : p[i] = t[i]})

Accumulate(p, t) ==
  /\ Len(p) = Len(t) /\ total + Len(p) <= MaxSeen
  /\ total' = total + Len(p)
  /\ correct' = correct + Matches(p, t)
  /\ seenP' = seenP \o p /\ seenT' = seenT \o t
  /\ UNCHANGED nbad

Rejected(kind) ==
  /\ nbad < MaxBad
  /\ nbad' = nbad + 1
  /\ UNCHANGED <<total, correct, seenP, seenT>>

Result == IF total = 0 THEN <<0, 1>> ELSE <<correct, total>>       \* a rational: numerator, denominator

Init == total = 0 /\ correct = 0 /\ seenP = <<>> /\ seenT = <<>> /\ nbad = 0 /\ path = <<>>
Next == \/ \E p \in Batches : \E t \in [1..Len(p) -> Labels] : Accumulate(p, t) /\ path' = Append(path, <<"acc", p, t>>)
        \/ \E k \in BadKinds : Rejected(k) /\ path' = Append(path, <<"bad", k>>)
Spec == Init /\ [][Next]_vars

(* ---- C19 ---- *)
MatchedOverTotal == /\ total = Len(seenP) /\ Len(seenP) = Len(seenT)
                    /\ correct = Matches(seenP, seenT)
Bounds == 0 <= correct /\ correct <= total /\ Result[1] >= 0 /\ Result[1] <= Result[2]
RejectedChangesNothing == [][nbad' # nbad => total' = total /\ correct' = correct]_vars

Dump == PrintT(ToJson([p |-> path', total |-> total', correct |-> correct']))
=============================================================================
