SPECIFICATION Spec
CONSTANTS
  Labels = {0, 1, 2}
  MaxBatch = 2
  MaxSeen = 6
  MaxBad = 2
VIEW View
ACTION_CONSTRAINT Dump
CHECK_DEADLOCK FALSE
