-------------------------------- MODULE Impl --------------------------------
(***************************************************************************)
(* How the library composes tensor operations to obtain the components     *)
(* whose backward pass goes through an implicit expansion (FC, Softmax).   *)
(*                                                                         *)
(* This is NOT the oracle of any property (the oracle is the definition in *)
(* Components.tla).  It exists only so that the named deviation            *)
(* "broadcast_grad_mean" (Backprop.tla) can be propagated through a        *)
(* composite graph: the expansion sites are inside these compositions.     *)
(* TLC checks (MC_Impl.tla) that each composition computes the same value  *)
(* as the definition, and with dev = {} the same gradients.                *)
(***************************************************************************)
EXTENDS Backprop

(* instruction sequences; base = id of the first node the expansion creates *)
FCImpl(w, b, x, base) ==
  << Ins("unsqueeze", [dim |-> 1], <<w>>),              \* base     [out, 1]
     Ins("unsqueeze", [dim |-> 1], <<x>>),              \* base + 1 [batch, 1, features]
     Ins("matmul", NoPar, <<base, base + 1>>),          \* base + 2 [batch, out, features]   (w expanded over batch)
     Ins("sumalong", [dim |-> 2], <<base + 2>>),        \* base + 3 [batch, out]
     Ins("add", NoPar, <<base + 3, b>>) >>              \* base + 4                          (b expanded over batch)

SoftmaxImpl(x, dim, base) ==
  << Ins("exp", [k |-> One], <<x>>),                    \* base
     Ins("sumalong", [dim |-> dim], <<base>>),          \* base + 1
     Ins("unsqueeze", [dim |-> dim], <<base + 1>>),     \* base + 2
     Ins("div", NoPar, <<base, base + 2>>) >>           \* base + 3                          (sums expanded along dim)

(* replace fc / softmax instructions by their compositions.                  *)
(* result: [code, map] where map[n] is the node of the expanded program      *)
(* holding the value of node n of the original program                       *)
RECURSIVE ExpandFrom(_, _, _, _, _)
ExpandFrom(code, i, out, map, nIn) ==
  IF i > Len(code) THEN [code |-> out, map |-> map]
  ELSE LET ins == code[i]
           a == [k \in DOMAIN ins.args |-> map[ins.args[k]]]
           base == nIn + Len(out) + 1
           seq == CASE ins.op = "fc" -> FCImpl(a[1], a[2], a[3], base)
                    [] ins.op = "softmax" -> SoftmaxImpl(a[1], ins.par.dim, base)
                    [] OTHER -> <<[ins EXCEPT !.args = a]>>
       IN ExpandFrom(code, i + 1, out \o seq, Append(map, base + Len(seq) - 1), nIn)

Expand(inputs, code) == ExpandFrom(code, 1, <<>>, [n \in 1..Len(inputs) |-> n], Len(inputs))

D2 == {"broadcast_grad_mean"}

(* the gradients the library at the pinned commit leaves behind (deviation on), per node of the ORIGINAL program *)
AsIs(inputs, code, r) ==
  LET e == Expand(inputs, code)
      g == MachineRun(inputs, e.code, e.map[r], D2)
  IN [n \in 1..(Len(inputs) + Len(code)) |-> g[e.map[n]]]

(* does back-propagation from r exercise the deviation *)
Deviates(inputs, code, r) ==
  LET e == Expand(inputs, code)
      vals == Run(inputs, e.code)
      tr == Tracked(inputs, e.code)
  IN UsesExpansion(inputs, e.code, vals, ReachP(e.map[r], inputs, e.code, tr))

=============================================================================
