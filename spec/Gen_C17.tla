------------------------------ MODULE Gen_C17 ------------------------------
(***************************************************************************)
(* C17: the SGD update.  For every shape of the grid and learning rate in  *)
(* {default (nil config, 1/100), 0, -1/2, 2, 1/3}: w is a tracked leaf,    *)
(* y = w * c is back-propagated (so w's gradient is exactly c, any         *)
(* values), then Update(&w).  Expected: a NEW tensor of the same shape     *)
(* with every element w - lr * g (g by differentiation); the harness also  *)
(* requires that the pointer's target was replaced, that the old tensor    *)
(* object, its values and its gradient are unchanged, and that a tensor    *)
(* without gradient / an untracked one is rejected with nothing replaced.  *)
(***************************************************************************)
EXTENDS Emit

Grid == IF Thorough THEN Shapes(3, 3) \cup Shapes(5, 2)
        ELSE Shapes(2, 2) \cup {<<3>>, <<2, 3>>, <<3, 1, 2>>, <<1, 2, 1, 2>>, <<2, 1, 2, 1, 2>>, <<6>>, <<4, 5>>, <<2, 5, 3>>, <<17>>, <<18, 2>>}
GridSeq == SetToSeq(Grid)
Lrs == <<Q(1, 100), Zero, Q(-1, 2), Two, Q(1, 3)>>
Descs == MyCases(Flatten2([i \in DOMAIN GridSeq |->
            [l \in DOMAIN Lrs |-> <<"ok", GridSeq[i], Lrs[l], l = 1>>] \o << <<"nograd", GridSeq[i], Half, FALSE>>, <<"two", GridSeq[i], Q(1, 4), FALSE>>, <<"again", GridSeq[i], Q(1, 4), FALSE>>,
               <<"slot", GridSeq[i], Q(1, 4), FALSE>>, <<"nograd", GridSeq[i], Zero, FALSE>> >>])
          \o << <<"tinylr", <<3>>, Cst("tiny250"), FALSE>>, <<"tinylr", <<2, 2>>, Cst("tiny250"), FALSE>>, <<"tinylr", <<>>, Cst("tiny250"), FALSE>> >>)

Build(d) ==
  LET inputs == <<In("w", d[2], TRUE), In("c", d[2], FALSE), In("u", d[2], d[1] = "ok")>>
      code == <<Ins("mul", NoPar, <<1, 2>>)>>
      base == MkCase("c17", "sgd", inputs, <<"any,any,any,any,t0", "any,wide,t0,huge,tiny250", "any">>, code, <<4>>, 4, FALSE)      \* last profile: w = 0 and a gradient below the library's equality tolerance everywhere     \* t0: a gradient that is exactly zero everywhere
  IN IF d[1] = "slot"
     THEN (* one optimizer object, ONE pointer variable: it first holds w, is then re-bound to a tensor of another shape and updated again *)
          LET other == IF d[2] = <<3>> THEN <<2, 2>> ELSE <<3>>
              in4 == <<In("w", d[2], TRUE), In("v", other, TRUE), In("c", d[2], FALSE), In("e", other, FALSE)>>
              code4 == <<Ins("mul", NoPar, <<1, 3>>), Ins("mul", NoPar, <<2, 4>>)>>
              g1 == GradDef(in4, code4, 5, 1)
              g2 == GradDef(in4, code4, 6, 2)
          IN MkCase("c17", "sgd-slot", in4, <<"any", "any", "any", "any">>, code4, <<5, 6>>, 5, FALSE)
             @@ [nograd |-> <<2, 3, 4, 6>>,
                 post |-> <<EncIns(Ins("sgd", [k |-> d[3], nilconf |-> FALSE, inst |-> 1], <<1>>)), EncIns(Ins("bp", NoPar, <<6>>)),
                            EncIns(Ins("sgd", [k |-> d[3], nilconf |-> FALSE, inst |-> 1], <<2>>))>>,
                 postouts |-> <<EncT(7, SGDStep(SymT("w", d[2]), [dims |-> d[2], data |-> g1], d[3])),
                                EncT(8, SGDStep(SymT("v", other), [dims |-> other, data |-> g2], d[3]))>>]
     ELSE IF d[1] = "again"
     THEN (* the SAME tensor object is updated twice by one optimizer object (through two pointers), its gradient having grown in *)
          (* between by the back-propagation of a second graph over the same leaf: each Update uses the gradient current then   *)
          LET in3 == <<In("w", d[2], TRUE), In("c", d[2], FALSE), In("e", d[2], FALSE)>>
              code3 == <<Ins("mul", NoPar, <<1, 2>>), Ins("mul", NoPar, <<1, 3>>)>>
              g1 == GradDef(in3, code3, 4, 1)
              g2 == GradDef(in3, code3, 5, 1)
              gsum == [i \in DOMAIN g1 |-> Add(g1[i], g2[i])]
          IN MkCase("c17", "sgd-again", in3, <<"any", "any", "any">>, code3, <<4, 5>>, 4, FALSE)
             @@ [nograd |-> <<2, 3, 5>>,
                 post |-> <<EncIns(Ins("sgd", [k |-> d[3], nilconf |-> FALSE, inst |-> 1], <<1>>)), EncIns(Ins("bp", NoPar, <<5>>)),
                            EncIns(Ins("sgd", [k |-> d[3], nilconf |-> FALSE, inst |-> 1], <<1>>))>>,
                 postouts |-> <<EncT(6, SGDStep(SymT("w", d[2]), [dims |-> d[2], data |-> g1], d[3])),
                                EncT(7, SGDStep(SymT("w", d[2]), [dims |-> d[2], data |-> gsum], d[3]))>>]
     ELSE IF d[1] = "two"
     THEN (* one optimizer object, two parameters of the same shape that are the operands of ONE Add (no broadcasting): the  *)
          (* back-propagation hands both the very same gradient tensor; each must still be updated from its own value        *)
          LET in2 == <<In("w", d[2], TRUE), In("v", d[2], TRUE), In("c", d[2], FALSE)>>
              code2 == <<Ins("add", NoPar, <<1, 2>>), Ins("mul", NoPar, <<4, 3>>)>>
              g1 == GradDef(in2, code2, 5, 1)
              g2 == GradDef(in2, code2, 5, 2)
          IN MkCase("c17", "sgd-two", in2, <<"any", "any", "any,wide">>, code2, <<5>>, 5, FALSE)
             @@ [post |-> <<EncIns(Ins("sgd", [k |-> d[3], nilconf |-> FALSE, inst |-> 1], <<1>>)), EncIns(Ins("sgd", [k |-> d[3], nilconf |-> FALSE, inst |-> 1], <<2>>))>>,
                 postouts |-> <<EncT(6, SGDStep(SymT("w", d[2]), [dims |-> d[2], data |-> g1], d[3])),
                                EncT(7, SGDStep(SymT("v", d[2]), [dims |-> d[2], data |-> g2], d[3]))>>]
     ELSE IF d[1] = "tinylr"
     THEN (* a learning rate of 1e-250 (below the library's equality tolerance, a normal number) against gradients of 2.5e249 * c: *)
          (* the step lr * g is an ordinary number                                                                              *)
          LET inT == <<In("w", d[2], TRUE), In("c", d[2], FALSE)>>
              codeT == <<Ins("mul", NoPar, <<1, 2>>), Ins("scale", [k |-> Cst("huge249")], <<3>>)>>
              g == GradDef(inT, codeT, 4, 1)
          IN MkCase("c17", "sgd-tiny-rate", inT, <<"any", "any">>, codeT, <<3>>, 4, FALSE)
             @@ [post |-> <<EncIns(Ins("sgd", [k |-> d[3], nilconf |-> FALSE], <<1>>))>>,
                 postouts |-> <<EncT(5, SGDStep(SymT("w", d[2]), [dims |-> d[2], data |-> g], d[3]))>>]
     ELSE IF d[1] = "ok"
     THEN LET g == GradDef(inputs, code, 4, 1)
              w == SymT("w", d[2])
              new == SGDStep(w, [dims |-> d[2], data |-> g], d[3])
          IN base @@ [post |-> <<EncIns(Ins("sgd", [k |-> d[3], nilconf |-> d[4]], <<1>>))>>,
                      postouts |-> <<EncT(5, new)>>]
     ELSE (* u took no part in the back-propagation: it has no gradient; Update must fail and replace nothing *)
          base @@ [post |-> <<EncIns(Ins("sgd", [k |-> d[3], nilconf |-> FALSE], <<3>>))>>, postok |-> FALSE]

Cases == [i \in DOMAIN Descs |-> Build(Descs[i])]
ASSUME Write(Cases)
ASSUME PrintT(<<"generated", Len(Cases)>>)
=============================================================================
