------------------------------ MODULE Autograd ------------------------------
(***************************************************************************)
(* The autograd state machine of qeep: the heap of tensors a user program  *)
(* holds, and the public calls that change it.                             *)
(*                                                                         *)
(*   T[i]  the i-th tensor ever created:                                   *)
(*           val      its value [dims, data]           (never changes)     *)
(*           op, par, args   how it was computed ("leaf" for constructors) *)
(*           tracked, spent  its gradient context's flags                  *)
(*           wired    it has backward edges (one per operand)              *)
(*           hasGrad, grad   its gradient (absent, or a data sequence)     *)
(*   bp    the back-propagation in progress (or idle)                      *)
(*                                                                         *)
(* Granularity follows the code: every public call is one action (the      *)
(* library is sequential: a call's linearization point is its return),     *)
(* except BackPropagate, whose internal steps - marking, seeding, one      *)
(* application per backward edge - are separate actions because that is    *)
(* where the interesting freedom (the schedule) and the defects found      *)
(* (re-application of edges) live.  BPApply(e) is enabled only when no     *)
(* pending edge still targets e's consumer, i.e. the consumer's gradient   *)
(* is complete; ANY order allowed by that condition is a behaviour.        *)
(*                                                                         *)
(* Implicit expansion: the code wraps both operands of Add/Sub/Mul/Div/    *)
(* Dot/MatMul in a hidden Broadcast result.  Those tensors cannot be       *)
(* observed through the API; the machine contracts them: one logical edge  *)
(* per operand whose local VJP already contains the expansion.             *)
(***************************************************************************)
EXTENDS Emit

CONSTANTS
  MaxNodes,     \* bound on the number of tensors
  MaxBP,        \* bound on the number of back-propagations started from a tracked root
  LeafVals,     \* set of tensor values a constructor may produce
  UnOps,        \* set of <<op, par>> applicable to one tensor
  BinOps,       \* set of <<op, par>> applicable to two tensors
  CtorShapes,   \* set of <<kind, shape>>: the dims-taking constructors (Full / Zeros / Ones) and the shapes they are called with
  AllowReset,   \* BOOLEAN: ResetGradContext is part of the alphabet
  AllowScribble,\* BOOLEAN: the environment may overwrite caller-owned slices
  Dev,          \* named deviations switched on in the machine itself ({} = the design)
  Recorded      \* recorded deviations of the pinned code, tracked in the shadow field gradA only

VARIABLES T, bp, nbp, scr, path

vars == <<T, bp, nbp, scr, path>>
View == <<T, bp, nbp, scr>>

Ids == 1..Len(T)
Idle == [phase |-> "idle", root |-> 0, pending |-> {}, seeded |-> FALSE, before |-> <<>>, stack |-> <<>>]

Leaf(v, tr) == [op |-> "leaf", par |-> NoPar, args |-> <<>>, val |-> v,
                tracked |-> tr, spent |-> FALSE, wired |-> FALSE, hasGrad |-> FALSE, grad |-> <<>>, gradA |-> <<>>]

(* the tracking rule: a result is tracked exactly when some operand is tracked and no operand is spent; *)
(* it is spent when some operand is; comparison results are untracked and clean                         *)
NewNode(op, par, args) ==
  LET av == [a \in DOMAIN args |-> T[args[a]].val]
      v == OpApply(op, par, av)
      diffable == IsDiffOp(op)
      sp == diffable /\ \E a \in DOMAIN args : T[args[a]].spent
      tr == diffable /\ ~sp /\ \E a \in DOMAIN args : T[args[a]].tracked
  IN [op |-> op, par |-> par, args |-> args, val |-> v,
      tracked |-> tr, spent |-> sp, wired |-> tr, hasGrad |-> FALSE, grad |-> <<>>, gradA |-> <<>>]

Edges(y) == IF T[y].wired THEN {<<y, k>> : k \in DOMAIN T[y].args} ELSE {}
Tgt(e) == T[e[1]].args[e[2]]

(* tracked tensors a back-propagation from r passes through *)
RECURSIVE Reach(_)
Reach(r) == IF ~T[r].tracked THEN {} ELSE {r} \cup UNION {Reach(Tgt(e)) : e \in Edges(r)}

(* tensors computed from t through backward edges *)
RECURSIVE Ancestors(_)
Ancestors(z) == {z} \cup UNION {Ancestors(Tgt(e)) : e \in Edges(z)}

(* ------------------------------- actions -------------------------------- *)

Create(v, tr) ==
  /\ bp.phase = "idle" /\ Len(T) < MaxNodes
  /\ T' = Append(T, Leaf(v, tr))
  /\ UNCHANGED <<bp, nbp, scr>>

(* Full / Zeros / Ones: the caller passes a dimension list (which it may overwrite afterwards, see Scribble) *)
Construct(kind, shape, tr) ==
  /\ bp.phase = "idle" /\ Len(T) < MaxNodes
  /\ T' = Append(T, Leaf(Full(shape, CASE kind = "full" -> Q(-7, 2) [] kind = "zeros" -> Zero [] kind = "ones" -> One), tr))
  /\ UNCHANGED <<bp, nbp, scr>>

ArgDims(args) == [a \in DOMAIN args |-> T[args[a]].val.dims]

Op(op, par, args) ==
  /\ bp.phase = "idle" /\ Len(T) < MaxNodes
  /\ OpPre(op, par, ArgDims(args))
  /\ T' = Append(T, NewNode(op, par, args))
  /\ UNCHANGED <<bp, nbp, scr>>

(* proviso (a) of C08: graphs are single-use apart from shared leaves *)
FreshGraph(r) == \A x \in Reach(r) : ~(T[x].wired /\ T[x].spent)

BPStart(r) ==
  /\ "bp_edge_walk" \notin Dev
  /\ bp.phase = "idle"
  /\ IF ~T[r].tracked
     THEN UNCHANGED <<T, bp, nbp>>                        \* an untracked root changes nothing
     ELSE /\ nbp < MaxBP /\ FreshGraph(r)
          /\ LET R == Reach(r)
             IN /\ T' = [n \in Ids |-> IF n \in R THEN [T[n] EXCEPT !.spent = TRUE] ELSE T[n]]
                /\ bp' = [phase |-> "run", root |-> r, pending |-> UNION {Edges(y) : y \in R},
                          seeded |-> FALSE, before |-> T, stack |-> <<>>]
          /\ nbp' = nbp + 1
  /\ UNCHANGED scr

Ones(n) == [p \in 1..n |-> One]
GAdd(node, g) == IF node.hasGrad THEN VAdd(node.grad, g) ELSE g
GAddA(node, g) == IF node.hasGrad THEN VAdd(node.gradA, g) ELSE g

BPSeed ==
  /\ "bp_edge_walk" \notin Dev
  /\ bp.phase = "run" /\ ~bp.seeded
  /\ T' = [T EXCEPT ![bp.root].hasGrad = TRUE, ![bp.root].grad = GAdd(T[bp.root], Ones(Prod(T[bp.root].val.dims))),
                     ![bp.root].gradA = GAddA(T[bp.root], Ones(Prod(T[bp.root].val.dims)))]
  /\ bp' = [bp EXCEPT !.seeded = TRUE]
  /\ UNCHANGED <<nbp, scr>>

VJPOf(e) ==
  LET y == T[e[1]]
  IN LocalVJP(y.op, y.par, [a \in DOMAIN y.args |-> T[y.args[a]].val], e[2], y.grad, Dev)
(* the same step under the recorded deviations (gradA shadows grad and is what the pinned code delivers) *)
VJPOfA(e) ==
  LET y == T[e[1]]
  IN LocalVJP(y.op, y.par, [a \in DOMAIN y.args |-> T[y.args[a]].val], e[2], y.gradA, Dev \cup Recorded)

Ready(e) == \A f \in bp.pending : Tgt(f) # e[1]           \* the consumer's gradient is complete

BPApply(e) ==
  /\ "bp_edge_walk" \notin Dev
  /\ bp.phase = "run" /\ bp.seeded /\ e \in bp.pending /\ Ready(e)
  /\ LET x == Tgt(e)
     IN IF T[x].tracked
        THEN T' = [T EXCEPT ![x].hasGrad = TRUE, ![x].grad = GAdd(T[x], VJPOf(e)), ![x].gradA = GAddA(T[x], VJPOfA(e))]
        ELSE UNCHANGED T
  /\ bp' = [bp EXCEPT !.pending = @ \ {e}]
  /\ UNCHANGED <<nbp, scr>>

(* ---- the recorded (and since repaired) deviation "bp_edge_walk": finding D1 ----                              *)
(* The library at the pinned commit walked the edges depth-first: handing a gradient to a tensor immediately   *)
(* re-walked that tensor's own edges, each time with the gradient accumulated SO FAR.  A tensor with two        *)
(* consumers therefore pushed its first partial gradient down once and the sum down again (x.Scale(2) added to  *)
(* itself gave 6 instead of 4), and the work grew exponentially with the number of reconvergent levels.  The    *)
(* walk is kept here, behind the switch, as the record of that finding: with Dev = {"bp_edge_walk"} TLC reports *)
(* C01_Total violated with the diamond as counterexample (the C01 check asserts this on every run, which also   *)
(* shows that the invariant is not vacuous).                                                                    *)
EdgeSeq(y) == IF T[y].wired THEN [k \in DOMAIN T[y].args |-> <<y, k>>] ELSE <<>>

WalkStart(r) ==
  /\ "bp_edge_walk" \in Dev /\ bp.phase = "idle"
  /\ IF ~T[r].tracked
     THEN UNCHANGED <<T, bp, nbp>>
     ELSE /\ nbp < MaxBP /\ FreshGraph(r)
          /\ T' = [T EXCEPT ![r].spent = TRUE, ![r].hasGrad = TRUE,
                            ![r].grad = GAdd(T[r], Ones(Prod(T[r].val.dims))), ![r].gradA = GAddA(T[r], Ones(Prod(T[r].val.dims)))]
          /\ bp' = [phase |-> "run", root |-> r, pending |-> {}, seeded |-> TRUE, before |-> T, stack |-> <<EdgeSeq(r)>>]
          /\ nbp' = nbp + 1
  /\ UNCHANGED scr

WalkStep ==
  /\ "bp_edge_walk" \in Dev /\ bp.phase = "run" /\ bp.stack # <<>>
  /\ LET top == Head(bp.stack)
     IN IF top = <<>>
        THEN /\ bp' = [bp EXCEPT !.stack = Tail(@)] /\ UNCHANGED T
        ELSE LET e == Head(top)
                 x == Tgt(e)
             IN IF ~T[x].tracked
                THEN /\ bp' = [bp EXCEPT !.stack = <<Tail(top)>> \o Tail(@)] /\ UNCHANGED T
                ELSE /\ T' = [T EXCEPT ![x].spent = TRUE, ![x].hasGrad = TRUE,
                                       ![x].grad = GAdd(T[x], VJPOf(e)), ![x].gradA = GAddA(T[x], VJPOfA(e))]
                     /\ bp' = [bp EXCEPT !.stack = <<EdgeSeq(x), Tail(top)>> \o Tail(@)]
  /\ UNCHANGED <<nbp, scr>>

BPDone == bp.phase = "run" /\ bp.seeded /\ bp.pending = {} /\ bp.stack = <<>>

BPEnd ==
  /\ BPDone
  /\ bp' = Idle
  /\ UNCHANGED <<T, nbp, scr>>

(* proviso (b) of C08 *)
Resettable(t) == \A z \in Ids : (T[z].wired /\ ~T[z].spent /\ z # t) => t \notin Ancestors(z)

Reset(t, tr) ==
  /\ AllowReset /\ bp.phase = "idle" /\ Resettable(t)
  /\ T' = [T EXCEPT ![t] = Leaf(T[t].val, tr)]            \* a fresh leaf with the same value
  /\ UNCHANGED <<bp, nbp, scr>>

(* The environment overwrites every caller-owned slice that was handed to the library by the call that  *)
(* created tensor t (dimension lists, nested data, index ranges, tensor lists) and the slice t's Shape() *)
(* handed out.  No variable the library's behaviour depends on changes: tensors are decoupled from them. *)
Scribble(t) ==
  /\ AllowScribble /\ bp.phase = "idle" /\ t \notin scr
  /\ scr' = scr \cup {t}
  /\ UNCHANGED <<T, bp, nbp>>

(* ------------------------------ next-state ------------------------------ *)

L(a) == path' = Append(path, a)

Next ==
  \/ \E v \in LeafVals, tr \in BOOLEAN : Create(v, tr) /\ L(<<"create", v.dims, EncData(v.data), tr>>)
  \/ \E c \in CtorShapes, tr \in BOOLEAN : Construct(c[1], c[2], tr) /\ L(<<"ctor", c[1], c[2], tr>>)
  \/ \E u \in UnOps, a \in Ids : Op(u[1], u[2], <<a>>) /\ L(<<"op", u[1], EncParOf(u[2]), <<a>>>>)
  \/ \E b \in BinOps, a1, a2 \in Ids : Op(b[1], b[2], <<a1, a2>>) /\ L(<<"op", b[1], EncParOf(b[2]), <<a1, a2>>>>)
  \/ \E r \in Ids : BPStart(r) /\ L(<<"bp", r>>)
  \/ \E r \in Ids : WalkStart(r) /\ L(<<"bp", r>>)
  \/ WalkStep /\ L(<<"walk">>)
  \/ BPSeed /\ L(<<"seed">>)
  \/ \E y \in Ids, k \in 1..3 : BPApply(<<y, k>>) /\ L(<<"apply", y, k>>)
  \/ BPEnd /\ L(<<"bpend">>)
  \/ \E t \in Ids, tr \in BOOLEAN : Reset(t, tr) /\ L(<<"reset", t, tr>>)
  \/ \E t \in Ids : Scribble(t) /\ L(<<"scribble", t>>)

Init == T = <<>> /\ bp = Idle /\ nbp = 0 /\ scr = {} /\ path = <<>>
Spec == Init /\ [][Next]_vars

(* ----------------- the definition the machine is held to ---------------- *)

(* values of all tensors when tensor cut is replaced by fresh symbols; tensors without backward edges *)
(* (leaves, untracked results, reset tensors) are constants                                          *)
RECURSIVE DEvalFrom(_, _, _)
DEvalFrom(vals, i, cut) ==
  IF i > Len(T) THEN vals
  ELSE LET v == IF i = cut THEN SymT("cut", T[i].val.dims)
                ELSE IF T[i].wired THEN OpApply(T[i].op, T[i].par, [a \in DOMAIN T[i].args |-> vals[T[i].args[a]]])
                ELSE T[i].val
       IN DEvalFrom(Append(vals, v), i + 1, cut)

(* d (sum of the elements of r) / d x *)
TotalDeriv(r, x) ==
  LET n == Prod(T[x].val.dims)
  IN IF x = r THEN Ones(n)
     ELSE LET rv == DEvalFrom(<<>>, 1, x)[r].data
              g == TotalGrad(rv, "cut", n)
              env == [s \in {"cut"} \X (1..n) |-> T[x].val.data[s[2]]]
          IN [i \in 1..n |-> Subst(g[i], env)]

(* ------------------------------ properties ------------------------------ *)

(* C01: when the last edge has been applied, every tensor the back-propagation passed through holds   *)
(* what it held before plus the total derivative (graphs that share only leaves add up on them)       *)
C01_Total ==
  BPDone => \A x \in Reach(bp.root) :
               /\ T[x].hasGrad
               /\ T[x].grad = GAdd(bp.before[x], TotalDeriv(bp.root, x))
               /\ Len(T[x].grad) = Prod(T[x].val.dims)

(* C08: a back-propagation gives a gradient to the tensors it passes through and changes nothing else *)
C08_Frame ==
  BPDone => \A x \in Ids : x \notin Reach(bp.root) => T[x] = bp.before[x]
C08_Retire ==
  BPDone => \A x \in Reach(bp.root) : T[x].spent
(* only tracked tensors have backward edges or gradients; a spent result of a spent operand has neither *)
C08_Shape == \A x \in Ids : /\ (T[x].wired => T[x].tracked /\ T[x].op # "leaf")
                             /\ (T[x].hasGrad => T[x].tracked)
                             /\ (T[x].op \in CmpOps => ~T[x].tracked /\ ~T[x].spent /\ ~T[x].wired)
(* C10: values never change; gradients change only during a back-propagation (or are dropped by Reset) *)
C10_ValuesFrozen == [][Len(T') >= Len(T) => \A i \in Ids : T'[i].val = T[i].val]_vars
C10_GradOnlyInBP == [][Len(T') >= Len(T) => \A i \in Ids : T'[i].grad # T[i].grad => (bp.phase = "run" \/ T'[i].grad = <<>>)]_vars
C10_ScribbleIsInert == [][scr' # scr => T' = T /\ bp' = bp]_vars
C10_TrackedOnlyByReset == [][Len(T') >= Len(T) => \A i \in Ids : T'[i].tracked # T[i].tracked => (bp.phase = "idle" /\ ~T'[i].wired /\ ~T'[i].hasGrad)]_vars
(* every edge is applied exactly once: pending only shrinks during a run *)
C01_Once == [][bp.phase = "run" /\ bp'.phase = "run" => bp'.pending \subseteq bp.pending /\ Cardinality(bp.pending \ bp'.pending) <= 1]_vars

(* ------------------------------- dumping -------------------------------- *)
(* one line per generated transition that ends in an idle state: the witness path of action labels and *)
(* the projection of every tensor (cfg: VIEW View, ACTION_CONSTRAINT Dump, -workers 1)                 *)

Proj(TT) == [i \in DOMAIN TT |-> [dims |-> TT[i].val.dims, data |-> EncData(TT[i].val.data),
                                   tracked |-> TT[i].tracked, spent |-> TT[i].spent,
                                   hasGrad |-> TT[i].hasGrad, grad |-> EncData(TT[i].grad),
                                   gradA |-> IF TT[i].gradA = TT[i].grad THEN <<>> ELSE EncData(TT[i].gradA)]]
Dump == bp'.phase = "idle" => PrintT(ToJson([p |-> path', s |-> Proj(T')]))

=============================================================================
