------------------------------ MODULE TrainProto ------------------------------
(***************************************************************************)
(* The training protocol without values: what a forward pass, a            *)
(* back-propagation, Update(p), ResetGradContext(true) on p and the end of *)
(* a step do to the gradient-context state of the trainable parameters.    *)
(* Train.tla (exact rational weights, one FC layer) refines this machine   *)
(* (TLC checks Train!RefinesProto); recorded protocols of REAL models of   *)
(* any size and depth are validated against it (Trace_Train.tla).          *)
(*   "fresh"   tracked leaf without gradient                               *)
(*   "graded"  tracked, spent, with gradient                               *)
(*   "stale"   what Update leaves behind the pointer: untracked, spent,    *)
(*             no gradient                                                 *)
(***************************************************************************)
CONSTANT Params
VARIABLES ctx, live, phase, done, last
pvars == <<ctx, live, phase, done, last>>

Spent(c) == c \in {"graded", "stale"}

PInit == /\ ctx = [p \in Params |-> "fresh"]
         /\ live = FALSE /\ phase = "idle" /\ done = {} /\ last = "ok"

(* the graph is live (its result tracked) only if no parameter is spent *)
PForward == /\ phase = "idle"
            /\ live' = (\A p \in Params : ~Spent(ctx[p]))
            /\ phase' = "forwarded" /\ last' = "ok"
            /\ UNCHANGED <<ctx, done>>

(* back-propagating a dead graph changes nothing *)
PBackProp == /\ phase = "forwarded"
             /\ ctx' = IF live THEN [p \in Params |-> "graded"] ELSE ctx
             /\ phase' = "backpropped" /\ last' = "ok"
             /\ UNCHANGED <<live, done>>

(* Update of a parameter without gradient is an error and replaces nothing *)
PUpdate(p) == /\ phase = "backpropped" /\ p \notin done
              /\ IF ctx[p] = "graded"
                 THEN ctx' = [ctx EXCEPT ![p] = "stale"] /\ last' = "ok"
                 ELSE UNCHANGED ctx /\ last' = "error"
              /\ done' = done \cup {p}
              /\ UNCHANGED <<live, phase>>

PReset(p) == /\ phase = "backpropped"
             /\ ctx' = [ctx EXCEPT ![p] = "fresh"]
             /\ last' = "ok"
             /\ UNCHANGED <<live, phase, done>>

PEndStep == /\ phase = "backpropped"
            /\ phase' = "idle" /\ done' = {} /\ last' = "ok"
            /\ UNCHANGED <<ctx, live>>

PNext == PForward \/ PBackProp \/ (\E p \in Params : PUpdate(p) \/ PReset(p)) \/ PEndStep
PSpec == PInit /\ [][PNext]_pvars

(* omitting a reset is reported: once a parameter is stale, no later step of the protocol trains (all forward passes   *)
(* are dead) until it is reset, and its Update is an error                                                            *)
DeadWhileStale == (phase = "forwarded" /\ live) => \A p \in Params : ~Spent(ctx[p])
=============================================================================
