------------------------------ MODULE Gen_C18 ------------------------------
(***************************************************************************)
(* C18: initializers and random constructors.  For every initializer,      *)
(* configuration of the grid (nil configs = the documented defaults) and   *)
(* shape, the specification gives: the result is a TRACKED leaf of exactly *)
(* the requested shape, and the distribution of its elements:              *)
(*   const(v) | uniform on [lo, hi) | normal(mu, sigma)                    *)
(* with the parameters as terms (sqrt(6/fanIn), sqrt(2/(fanIn+fanOut)),..).*)
(* The harness checks shape / tracking / support exactly on every call and *)
(* the distributional half statistically (8-sigma bands, see DESIGN.md).   *)
(* RandU / RandN are the untracked constructor forms.                      *)
(***************************************************************************)
EXTENDS Emit

Sqrt(q) == Fn("sqrt", q)
Dist(kind, nilconf, a, b) ==
  CASE kind = "full" -> [dist |-> "const", p1 |-> IF nilconf THEN Zero ELSE a, p2 |-> Zero]
    [] kind = "uniform" -> [dist |-> "uniform", p1 |-> IF nilconf THEN Q(-1, 20) ELSE a, p2 |-> IF nilconf THEN Q(1, 20) ELSE b]
    [] kind = "normal" -> [dist |-> "normal", p1 |-> IF nilconf THEN Zero ELSE a, p2 |-> IF nilconf THEN Q(1, 20) ELSE b]
    [] kind = "he-uniform" -> [dist |-> "uniform", p1 |-> Neg(Sqrt(Div(QI(6), a))), p2 |-> Sqrt(Div(QI(6), a))]
    [] kind = "xavier-uniform" -> [dist |-> "uniform", p1 |-> Neg(Sqrt(Div(QI(6), Add(a, b)))), p2 |-> Sqrt(Div(QI(6), Add(a, b)))]
    [] kind = "he-normal" -> [dist |-> "normal", p1 |-> Zero, p2 |-> Sqrt(Div(Two, a))]
    [] kind = "xavier-normal" -> [dist |-> "normal", p1 |-> Zero, p2 |-> Sqrt(Div(Two, Add(a, b)))]
    [] kind = "randu" -> [dist |-> "uniform", p1 |-> a, p2 |-> b]
    [] kind = "randn" -> [dist |-> "normal", p1 |-> a, p2 |-> b]

Confs == << <<"full", TRUE, Zero, Zero>>, <<"full", FALSE, Q(-7, 2), Zero>>, <<"full", FALSE, QI(3), Zero>>,
            <<"uniform", TRUE, Zero, Zero>>, <<"uniform", FALSE, QI(-2), QI(5)>>, <<"uniform", FALSE, Q(1, 2), Q(3, 4)>>, <<"uniform", FALSE, QI(-1000), QI(-999)>>,
            <<"uniform", FALSE, Zero, One>>, <<"uniform", FALSE, MinusOne, Zero>>,          \* a bound of exactly 0 is a configured value, not "unset"
            <<"normal", FALSE, Zero, Two>>, <<"full", FALSE, Zero, Zero>>,
            <<"normal", TRUE, Zero, Zero>>, <<"normal", FALSE, QI(3), Half>>, <<"normal", FALSE, QI(-10), QI(4)>>,
            <<"he-uniform", FALSE, QI(1), Zero>>, <<"he-uniform", FALSE, QI(6), Zero>>, <<"he-uniform", FALSE, QI(100), Zero>>,
            <<"he-normal", FALSE, QI(1), Zero>>, <<"he-normal", FALSE, QI(8), Zero>>, <<"he-normal", FALSE, QI(50), Zero>>,
            <<"xavier-uniform", FALSE, QI(1), QI(1)>>, <<"xavier-uniform", FALSE, QI(3), QI(5)>>, <<"xavier-uniform", FALSE, QI(30), QI(2)>>,
            <<"xavier-normal", FALSE, QI(1), QI(1)>>, <<"xavier-normal", FALSE, QI(4), QI(12)>>, <<"xavier-normal", FALSE, QI(2), QI(30)>>,
            \* odd fan sums (an averaged fan computed in integers would be off by a half), odd fans
            <<"xavier-uniform", FALSE, QI(1), QI(2)>>, <<"xavier-uniform", FALSE, QI(3), QI(4)>>, <<"xavier-normal", FALSE, QI(1), QI(2)>>, <<"xavier-normal", FALSE, QI(2), QI(5)>>,
            <<"he-uniform", FALSE, QI(3), Zero>>, <<"he-normal", FALSE, QI(5), Zero>>,
            <<"randu", FALSE, QI(-1), QI(1)>>, <<"randu", FALSE, Zero, Q(1, 1000)>>, <<"randn", FALSE, QI(2), QI(3)>>, <<"randn", FALSE, Zero, Q(1, 100)>> >>
ShapesQ == << <<>>, <<7>>, <<2, 3>>, <<3, 1, 4>>, <<2, 2, 2, 3>>, <<40, 25>>, <<128, 130>> >>

Cases == Flatten2([i \in DOMAIN Confs |-> [s \in DOMAIN ShapesQ |->
            LET c == Confs[i] d == Dist(c[1], c[2], c[3], c[4])
            IN [kind |-> c[1], nilconf |-> c[2], a |-> Enc(c[3]), b |-> Enc(c[4]), dims |-> ShapesQ[s],
                tracked |-> c[1] \notin {"randu", "randn"},
                dist |-> d.dist, p1 |-> Enc(d.p1), p2 |-> Enc(d.p2)]]])
ASSUME Write(Cases)
ASSUME PrintT(<<"generated", Len(Cases)>>)
=============================================================================
