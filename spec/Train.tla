-------------------------------- MODULE Train --------------------------------
(***************************************************************************)
(* The training protocol: forward pass, loss, back-propagation, optimizer  *)
(* update and ResetGradContext(true) on a model FC -> activation -> MSE,   *)
(* with every way of omitting resets and updates.                          *)
(*                                                                         *)
(* A parameter's gradient context is in one of three states:               *)
(*   "fresh"   a tracked leaf without gradient (after construction/Reset)  *)
(*   "graded"  it took part in a back-propagation: tracked, spent, has a   *)
(*             gradient                                                    *)
(*   "stale"   the tensor an Update put behind the pointer: computed from  *)
(*             a spent tensor, hence untracked, spent, without gradient    *)
(* A forward pass builds a live (tracked) graph only if no parameter is    *)
(* spent; back-propagating a dead graph changes nothing, and Update of a   *)
(* parameter without gradient is an ERROR that replaces nothing - this is  *)
(* how an omitted reset surfaces (StaleIsAnError) instead of silently      *)
(* training on stale state.                                                *)
(*                                                                         *)
(* Values are exact rationals (Relu / LeakyRelu + MSE is piece-wise        *)
(* rational).  The step's gradient is the derivative of the DEFINITION     *)
(* Loss(Act(FC(W, B, X)), Y) at the CURRENT weights (Prog!GradDef); valA   *)
(* shadows val under the recorded deviation broadcast_grad_mean (D2).      *)
(***************************************************************************)
EXTENDS Emit

CONSTANTS Batch, Feat,      \* data shape; one output unit (MSE needs a rank-1 prediction)
          Act,              \* "relu" | "leakyrelu"
          MaxSteps

VARIABLES P, live, phase, done, steps, last, path
vars == <<P, live, phase, done, steps, last, path>>
View == <<P, live, phase, done, steps, last>>

Params == {"w", "b"}
LR == Half

X == [dims |-> <<Batch, Feat>>, data |-> [p \in 1..(Batch * Feat) |-> QI(2 * p - 3)]]
Y == [dims |-> <<Batch>>, data |-> [p \in 1..Batch |-> QI(p)]]
W0 == <<One>>
B0 == <<Half>>

Inputs == <<In("w", <<1>>, TRUE), In("b", <<1>>, TRUE), In("x", <<Batch, Feat>>, FALSE), In("t", <<Batch>>, FALSE)>>
ActPar == IF Act = "leakyrelu" THEN [k |-> Half, nilconf |-> FALSE] ELSE NoPar
Code == <<Ins("fc", NoPar, <<1, 2, 3>>), Ins(Act, ActPar, <<5>>), Ins("squeeze", [dim |-> 1], <<6>>), Ins("mse", NoPar, <<7, 4>>)>>
Root == 8

(* symbolic gradients of the loss definition, and as the pinned code delivers them *)
GradSym(p) == GradDef(Inputs, Code, Root, IF p = "w" THEN 1 ELSE 2)
GradSymA(p) == AsIs(Inputs, Code, Root)[IF p = "w" THEN 1 ELSE 2].g

EnvAt(wv, bv) == [s \in ({"w"} \X {1}) \cup ({"b"} \X {1}) \cup ({"x"} \X (1..(Batch * Feat))) \cup ({"t"} \X (1..Batch)) |->
                    CASE s[1] = "w" -> wv[1] [] s[1] = "b" -> bv[1] [] s[1] = "x" -> X.data[s[2]] [] s[1] = "t" -> Y.data[s[2]]]
GradAt(p, wv, bv) == [i \in 1..1 |-> Subst(GradSym(p)[i], EnvAt(wv, bv))]
GradAtA(p, wv, bv) == [i \in 1..1 |-> Subst(GradSymA(p)[i], EnvAt(wv, bv))]

Spent(c) == c \in {"graded", "stale"}

Init == /\ P = [p \in Params |-> [val |-> IF p = "w" THEN W0 ELSE B0, valA |-> IF p = "w" THEN W0 ELSE B0,
                                  ctx |-> "fresh", grad |-> <<>>, gradA |-> <<>>]]
        /\ live = FALSE /\ phase = "idle" /\ done = {} /\ steps = 0 /\ last = "ok" /\ path = <<>>

Forward ==
  /\ phase = "idle" /\ steps < MaxSteps
  /\ live' = (\A p \in Params : ~Spent(P[p].ctx))
  /\ phase' = "forwarded" /\ last' = "ok"
  /\ UNCHANGED <<P, done, steps>>

BackProp ==
  /\ phase = "forwarded"
  /\ P' = IF live
          THEN [p \in Params |-> [P[p] EXCEPT !.ctx = "graded",
                                             !.grad = GradAt(p, P["w"].val, P["b"].val),
                                             !.gradA = GradAtA(p, P["w"].valA, P["b"].valA)]]
          ELSE P
  /\ phase' = "backpropped" /\ last' = "ok"
  /\ UNCHANGED <<live, done, steps>>

Update(p) ==
  /\ phase = "backpropped" /\ p \notin done
  /\ IF P[p].ctx = "graded"
     THEN /\ P' = [P EXCEPT ![p] = [val |-> <<Sub(P[p].val[1], Mul(LR, P[p].grad[1]))>>,
                                    valA |-> <<Sub(P[p].valA[1], Mul(LR, P[p].gradA[1]))>>,
                                    ctx |-> "stale", grad |-> <<>>, gradA |-> <<>>]]
          /\ last' = "ok"
     ELSE /\ UNCHANGED P                                   \* no gradient: an error, nothing replaced
          /\ last' = "error"
  /\ done' = done \cup {p}
  /\ UNCHANGED <<live, phase, steps>>

(* ResetGradContext(true) IN PLACE, through the pointer, whether or not the parameter was updated in this step *)
Reset(p) ==
  /\ phase = "backpropped"
  /\ P[p].ctx # "fresh"
  /\ P' = [P EXCEPT ![p].ctx = "fresh", ![p].grad = <<>>, ![p].gradA = <<>>]
  /\ last' = "ok"
  /\ UNCHANGED <<live, phase, done, steps>>

EndStep ==
  /\ phase = "backpropped"
  /\ phase' = "idle" /\ done' = {} /\ steps' = steps + 1 /\ last' = "ok"
  /\ UNCHANGED <<P, live>>

L(a) == path' = Append(path, a)
Next == \/ Forward /\ L(<<"forward">>)
        \/ BackProp /\ L(<<"backprop">>)
        \/ \E p \in Params : Update(p) /\ L(<<"update", p>>)
        \/ \E p \in Params : Reset(p) /\ L(<<"reset", p>>)
        \/ EndStep /\ L(<<"endstep">>)
Spec == Init /\ [][Next]_vars

(* ---- C11 ---- *)
(* an update moves a weight exactly along w <- w - lr * dLoss/dw at the weights the forward pass used *)
Descent == [][\A p \in Params : P'[p].val # P[p].val =>
                /\ P[p].ctx = "graded"
                /\ P'[p].val = <<Sub(P[p].val[1], Mul(LR, P[p].grad[1]))>>]_vars
(* a live back-propagation leaves on every parameter the derivative of the loss at the weights the forward pass used; *)
(* a dead one (some parameter was spent at the forward pass) changes nothing                                          *)
GradIsCurrent == [][phase = "forwarded" /\ phase' = "backpropped" =>
                      IF live THEN \A p \in Params : P'[p].grad = GradAt(p, P["w"].val, P["b"].val) /\ P'[p].val = P[p].val
                      ELSE P' = P]_vars
(* omitting a reset never trains silently: a parameter that is not graded cannot be updated *)
StaleIsAnError == [][\A p \in Params : (p \in done' \ done) /\ P[p].ctx # "graded" => last' = "error" /\ P' = P]_vars
(* nothing leaks from one step into the next: gradients exist only between a live back-propagation and the update *)
(* the value-free protocol machine, which recorded protocols of arbitrary real models are validated against *)
Proto == INSTANCE TrainProto WITH ctx <- [p \in Params |-> P[p].ctx]
RefinesProto == Proto!PSpec
NoLeak == \A p \in Params : (P[p].grad # <<>>) <=> (P[p].ctx = "graded")
ShapesKept == \A p \in Params : Len(P[p].val) = 1
(* state constraint: the exact-rational model stays away from the kink of Relu (a pre-activation of exactly 0 leaves *)
(* an unresolved one-sided selector in the gradient; kinks are covered by the symbolic replays of C15)             *)
NoKink == \A p \in Params : AllLiteral(P[p].grad) /\ AllLiteral(P[p].gradA)

Proj == [p \in Params |-> [val |-> EncSeq(P'[p].val), valA |-> EncSeq(P'[p].valA), ctx |-> P'[p].ctx,
                           grad |-> EncSeq(P'[p].grad), gradA |-> EncSeq(P'[p].gradA)]]
Dump == PrintT(ToJson([p |-> path', s |-> Proj, last |-> last', live |-> live',
                       cfg |-> [batch |-> Batch, feat |-> Feat, act |-> Act, x |-> EncSeq(X.data), y |-> EncSeq(Y.data)]]))
=============================================================================
