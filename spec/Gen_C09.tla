------------------------------ MODULE Gen_C09 ------------------------------
(***************************************************************************)
(* C09: enumerates calls of every public entry point with arguments from   *)
(* the statement's domain (integers in [-2, 6], ranks 0..5, nil values,    *)
(* rectangular and ragged nested data of depth 1..4) and emits for each    *)
(* the outcome Total!Outcome defines: rejected, or accepted with a shape.  *)
(* Full Cartesian product up to rank / length 2, one position varied at a  *)
(* time (the others valid, and the others at a second invalid value) above.*)
(***************************************************************************)
EXTENDS Total, Emit

Small == {-2, -1, 0, 1, 2, 3, 6}
Few == IF Thorough THEN Small ELSE {-1, 0, 1, 2, 6}
IntSeqs2 == UNION {[1..n -> Few] : n \in 0..2}
(* length 3..5: a valid base with one position replaced *)
Varied(base) == {[base EXCEPT ![i] = v] : i \in DOMAIN base, v \in Few}
DimLists == IntSeqs2 \cup Varied(<<2, 1, 2>>) \cup Varied(<<1, 2, 1, 2>>) \cup Varied(<<2, 1, 1, 2, 1>>) \cup {NilV}

TShapes == Shapes(2, 2) \cup {<<3>>, <<2, 3>>, <<2, 1, 2>>, <<1, 2, 2>>, <<2, 1, 2, 1>>, <<1, 2, 1, 2, 2>>}
TSeq == SetToSeq(TShapes)


(* ---------------- constructors ---------------- *)
CtorCalls == SetToSeq({[fn |-> f, dims |-> d] : f \in {"full", "zeros", "ones"}, d \in DimLists})
             \o SetToSeq({[fn |-> "eye", n |-> n] : n \in Small})
             \o SetToSeq({[fn |-> "randu", dims |-> d, lo |-> b[1], hi |-> b[2]] : d \in {<<>>, <<2>>, <<0>>, <<2, -1>>, NilV}, b \in {<<0, 1>>, <<1, 0>>, <<1, 1>>, <<-1, 1>>}})
             \o SetToSeq({[fn |-> "randn", dims |-> d, sigma |-> s] : d \in {<<>>, <<2>>, <<0>>, <<2, -1>>, NilV}, s \in {1, 0, -1}})

(* nested data of depth 1..4 with lengths 0..2 at every level (ragged included) *)
RECURSIVE Nest(_)
Nest(depth) == IF depth = 0 THEN {1}
               ELSE LET sub == Nest(depth - 1) IN {<<>>} \cup {<<a>> : a \in sub} \cup {<<a, b>> : a \in sub, b \in sub}
(* depth 3 and 4 explode; take rectangular ones plus single-defect variants *)
RECURSIVE Rect(_, _)
Rect(dims, depth) == IF depth = 0 THEN 1 ELSE [i \in 1..dims[1] |-> Rect(Tail(dims), depth - 1)]
(* blocks with the SAME number of values but another factorisation: counting values instead of comparing lengths misses them *)
EqCount3 == {<<<<<<1, 1>>>>, <<<<1>>, <<1>>>>>>, <<<<<<1>>, <<1>>>>, <<<<1, 1>>>>>>}
EqCount4 == {<<<<<<<<1, 1>>>>>>, <<<<<<1>>, <<1>>>>>>>>,
             <<<<<<<<1, 1, 1>>, <<1, 1, 1>>>>>>, <<<<<<1, 1>>, <<1, 1>>, <<1, 1>>>>>>>>,
             <<<<<<<<1, 1>>, <<1, 1>>>>>>, <<<<<<1, 1, 1, 1>>>>>>>>,
             <<<<<<<<1, 1>>>>, <<<<1, 1>>>>>>, <<<<<<1, 1>>, <<1, 1>>>>>>>>}
Defects3 == EqCount3 \cup {<<<<<<1, 1>>>>, <<<<1>>>>>>, <<<<<<1>>, <<1>>>>, <<<<1>>>>>>, <<<<<<1, 1>>, <<1>>>>>>, <<<<>>>>, <<<<<<>>>>>>, <<<<<<1>>>>, <<>>>>, <<<<<<1, 1>>, <<1, 1>>>>, <<<<1, 1>>, <<1>>>>>>}
Defects4 == EqCount4 \cup {<<<<<<<<1, 1>>>>>>, <<<<<<1>>>>>>>>, <<<<<<<<1>>, <<1>>>>>>, <<<<<<1>>>>>>>>, <<<<<<<<1>>>>, <<<<1>>>>>>, <<<<<<1>>>>>>>>,
             <<<<<<<<>>>>>>>>, <<<<<<>>>>>>, <<<<<<<<1, 1>>>>, <<<<1>>>>>>>>, <<<<<<<<1, 1>>>>>>, <<>>>>}
TensorOfCalls == <<[fn |-> "tensorof", depth |-> 0, data |-> 1]>>
                 \o SetToSeq({[fn |-> "tensorof", depth |-> 1, data |-> d] : d \in Nest(1)})
                 \o SetToSeq({[fn |-> "tensorof", depth |-> 2, data |-> d] : d \in Nest(2)})
                 \o SetToSeq({[fn |-> "tensorof", depth |-> 3, data |-> d] : d \in (IF Thorough THEN Nest(3) ELSE {Rect(s, 3) : s \in [1..3 -> 1..2]} \cup Defects3)})
                 \o SetToSeq({[fn |-> "tensorof", depth |-> 4, data |-> d] : d \in {Rect(s, 4) : s \in [1..4 -> 1..2]} \cup Defects4})

(* ---------------- tensor methods ---------------- *)
AtCalls == UNION {{[fn |-> "at", dims |-> g, index |-> ix] : ix \in (IF Len(g) <= 2 THEN UNION {[1..n -> Few] : n \in 0..(Len(g) + 1)} ELSE Varied([i \in DOMAIN g |-> 0]) \cup {<<>>, [i \in 1..(Len(g) + 1) |-> 0]}) \cup {NilV}} : g \in TShapes}

DimOps == {"unsqueeze", "squeeze", "flatten"} \cup AlongOps
DimCalls == {[fn |-> "method", op |-> op, par |-> [dim |-> d], args |-> <<g>>] : op \in DimOps, d \in Small, g \in TShapes}
ShapeCalls == {[fn |-> "method", op |-> op, par |-> [shape |-> s], args |-> <<g>>] :
                  op \in {"reshape", "broadcast"}, g \in {<<>>, <<2>>, <<1, 2>>, <<2, 2>>, <<2, 1, 2>>},
                  s \in IntSeqs2 \cup Varied(<<2, 1, 2>>) \cup Varied(<<2, 2, 1, 2>>) \cup {<<4>>, <<2, 2>>, <<1, 4>>, <<4, 1>>}}
NoArgCalls == {[fn |-> "method", op |-> "transpose", par |-> NoPar, args |-> <<g>>] : g \in TShapes}

Ranges == {<<f, t>> : f \in {-1, 0, 1, 2, 3}, t \in {-1, 0, 1, 2, 3}}
SliceIdx(g) == IF Len(g) <= 1 THEN UNION {[1..n -> Ranges] : n \in 0..(Len(g) + 1)}
               ELSE IF Len(g) = 2 THEN {<<a>> : a \in Ranges} \cup {<<a, b>> : a \in Ranges, b \in {<<0, 0>>, <<0, 1>>, <<1, 3>>, <<2, 1>>, <<0, 2>>}} \cup {<<<<0, 0>>, <<0, 0>>, <<0, 1>>>>}
               ELSE UNION {{[i \in 1..n |-> IF i = d THEN r ELSE <<0, 0>>] : r \in Ranges} : d \in DOMAIN g, n \in 1..(Len(g) + 1)}
SliceCalls == UNION {{[fn |-> "method", op |-> "slice", par |-> [index |-> ix], args |-> <<g>>] : ix \in SliceIdx(g)} : g \in {<<>>, <<2>>, <<3>>, <<2, 2>>, <<2, 3>>, <<2, 1, 2>>}}
PatchCalls == UNION {{[fn |-> "method", op |-> "patch", par |-> [index |-> ix], args |-> <<g, s>>] :
                         ix \in {x \in SliceIdx(g) : Len(x) <= Len(g) + 1 /\ \A i \in DOMAIN x : x[i][1] >= 0 /\ x[i][2] <= 3},
                         s \in {<<>>, <<1>>, <<2>>, <<3>>, <<1, 1>>, <<2, 2>>, <<1, 2>>, <<2, 3>>, <<3, 1>>, NilV}}
                     : g \in {<<>>, <<2>>, <<3>>, <<2, 2>>, <<2, 3>>}}

BinNames == SameShapeOps \cup ArithOps \cup {"dot", "matmul", "equals"}
BinShapes == Shapes(2, 2) \cup {<<3>>, <<2, 3>>, <<3, 2>>, <<2, 1, 2>>, <<2, 2, 3>>, <<1, 3, 2>>, NilV}
BinCalls == {[fn |-> "method", op |-> op, par |-> NoPar, args |-> <<a, b>>] : op \in BinNames, a \in BinShapes \ {NilV}, b \in BinShapes}

ConcatCalls == {[fn |-> "concat", par |-> [dim |-> d], args |-> a] :
                  d \in {-1, 0, 1, 2, 3},
                  a \in {NilList, <<>>, <<<<2>>>>, <<<<2>>, <<3>>>>, <<<<2>>, NilV>>, <<NilV, <<2>>>>, <<<<>>, <<>>>>, <<<<2>>, <<>>>>, <<<<2, 2>>, <<2>>>>,
                         <<<<2, 2>>, <<1, 2>>>>, <<<<2, 2>>, <<2, 3>>>>, <<<<2, 2>>, <<3, 3>>>>, <<<<2, 1, 2>>, <<2, 2, 2>>, <<2, 3, 2>>>>, <<<<2, 1, 2>>, <<2, 2, 2>>, <<1, 3, 2>>>>}}
MiscCalls == {[fn |-> "backprop", dims |-> d] : d \in {NilV, <<>>, <<2>>}}

(* ---------------- components ---------------- *)
Inits == {"default", "nilinit", "full", "wrong-rank", "wrong-size", "returns-nil"}
FCNew == {[fn |-> "fc-new", nilconf |-> FALSE, inputs |-> i, outputs |-> o, winit |-> w, binit |-> b] :
             i \in {-1, 0, 1, 3}, o \in {-1, 0, 1, 2}, w \in {"default", "full"}, b \in {"default", "full"}}
         \cup {[fn |-> "fc-new", nilconf |-> FALSE, inputs |-> 2, outputs |-> 2, winit |-> w, binit |-> b] : w \in Inits, b \in Inits}
         \cup {[fn |-> "fc-new", nilconf |-> TRUE, inputs |-> 1, outputs |-> 1, winit |-> "default", binit |-> "default"]}
ArgLists == {<<>>, <<NilV>>, <<<<>>>>, <<<<2>>>>, <<<<2, 3>>>>, <<<<1, 1>>>>, <<<<2, 2, 2>>>>, <<<<2, 3>>, <<2, 3>>>>}
FCFwd == {[fn |-> "fc-forward", outputs |-> o, args |-> a] : o \in {1, 2}, a \in ArgLists}
ActFwd == SetToSeq({[fn |-> "act-forward", act |-> act, dim |-> 0, args |-> a] : act \in {"relu", "leakyrelu", "sigmoid", "tanhact"}, a \in ArgLists}
                   \cup {[fn |-> "act-forward", act |-> "softmax", dim |-> d, args |-> a] : d \in {0, 1, 2, 3}, a \in ArgLists})
          \o SetToSeq({[fn |-> "softmax-new", nilconf |-> n, dim |-> d] : n \in BOOLEAN, d \in {-2, -1, 0, 1, 5}})
          \o SetToSeq({[fn |-> "input-forward", seed |-> s, args |-> a] : s \in BOOLEAN, a \in {<<>>, <<<<2>>>>, <<NilV>>}})
LossShapes == {NilV, <<>>, <<1>>, <<2>>, <<3>>, <<2, 1>>, <<2, 2>>, <<2, 3>>, <<3, 2>>, <<2, 2, 1>>}
LossCalls == SetToSeq({[fn |-> "loss", loss |-> l, p |-> p, t |-> t] : l \in LossOps, p \in LossShapes, t \in LossShapes})
             \o SetToSeq({[fn |-> "accuracy", p |-> p, t |-> t] : p \in LossShapes, t \in LossShapes})
             \o SetToSeq({[fn |-> "sgd-update", state |-> s, nilconf |-> n] : s \in {"nil-pointer", "nil-tensor", "no-grad", "untracked", "has-grad"}, n \in BOOLEAN})
InitCalls == SetToSeq({[fn |-> "init-new", kind |-> k, nilconf |-> n, a |-> a, b |-> b] :
                 k \in {"full", "uniform", "normal", "he-uniform", "he-normal", "xavier-uniform", "xavier-normal"}, n \in BOOLEAN, a \in {-1, 0, 1, 2}, b \in {-1, 0, 1, 2}})
             \o SetToSeq({[fn |-> "init-init", kind |-> k, dims |-> d] :
                 k \in {"full", "uniform", "normal", "he-uniform", "he-normal", "xavier-uniform", "xavier-normal"}, d \in IntSeqs2 \cup {NilV, <<2, 1, 2>>, <<2, 0, 2>>, <<2, 2, -1>>}})

ConfCalls == SetToSeq({[fn |-> "ctor-conf", ctor |-> k, device |-> d, track |-> t] :
                          k \in {"full", "zeros", "ones", "eye", "randu", "randn", "tensorof"}, d \in {-1, 0, 1, 2, 6}, t \in BOOLEAN})
AllCalls == ConfCalls \o CtorCalls \o TensorOfCalls \o SetToSeq(AtCalls) \o SetToSeq(DimCalls) \o SetToSeq(ShapeCalls) \o SetToSeq(NoArgCalls)
            \o SetToSeq(SliceCalls) \o SetToSeq(PatchCalls) \o SetToSeq(BinCalls) \o SetToSeq(ConcatCalls) \o SetToSeq(MiscCalls)
            \o SetToSeq(FCNew) \o SetToSeq(FCFwd) \o ActFwd \o LossCalls \o InitCalls
Mine2 == MyCases(AllCalls)
Cases == [i \in DOMAIN Mine2 |-> LET c == Mine2[i] o == Outcome(c) IN [call |-> c, ok |-> o.ok, dims |-> o.dims]]
ASSUME Write(Cases)
ASSUME PrintT(<<"generated", Len(Cases), "of", Len(AllCalls)>>)
=============================================================================
