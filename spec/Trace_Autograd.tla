---------------------------- MODULE Trace_Autograd ----------------------------
(***************************************************************************)
(* Trace validation: histories recorded from the REAL library (Go driver   *)
(* harness/internal/drive with the verif hooks on) are checked to be       *)
(* behaviours of the Autograd machine.  One event per public call (logged  *)
(* at its return with its arguments and its result: shape, every element,  *)
(* flags) and one per internal step of BackPropagate (hook events: begin,  *)
(* seed, every backward edge after its result was accumulated - with the   *)
(* target's gradient after the step -, end with the full projected state). *)
(* Each trace action is                                                    *)
(*     IsEvent(name) /\ <spec action with the logged arguments>            *)
(*                   /\ <logged results = the successor state's>           *)
(* so forward values, the tracking rule, the order and multiplicity of     *)
(* edge applications (BPApply's enabling condition), every intermediate    *)
(* gradient and the final state are all decided by TLC.  The hidden        *)
(* identity-broadcast tensors of the implementation are contracted by the  *)
(* driver into the logical edge of the specification.  Traces are          *)
(* concatenated and separated by "end" events.                             *)
(***************************************************************************)
EXTENDS Autograd

Trace == ndJsonDeserialize(EnvOr("QV_TRACE", "trace.ndjson"))

VARIABLE l
tvars == <<T, bp, nbp, scr, path, l>>

Ev == Trace[l]
IsEvent(name) == l <= Len(Trace) /\ Trace[l].ev = name /\ l' = l + 1

ParOf(p) == [k |-> QI(p.k), dim |-> p.dim, shape |-> p.shape, index |-> p.index]
Lit(ints) == [p \in DOMAIN ints |-> QI(ints[p])]
IsIntSeq(s) == \A p \in DOMAIN s : IsQ(s[p]) /\ s[p].d = 1
Ints(s) == [p \in DOMAIN s |-> s[p].n]
ValOf(e) == [dims |-> e.dims, data |-> Lit(e.data)]

TrCreate ==
  /\ IsEvent("create") /\ Ev.id = Len(T) + 1
  /\ Create(ValOf(Ev), Ev.tracked)
  /\ UNCHANGED path

TrOp ==
  /\ IsEvent("op") /\ Ev.id = Len(T) + 1
  /\ Op(Ev.op, ParOf(Ev.par), Ev.args)
  /\ T'[Ev.id].val = ValOf(Ev)                       \* the logged result is the specified value
  /\ T'[Ev.id].tracked = Ev.tracked /\ T'[Ev.id].spent = Ev.spent
  /\ UNCHANGED path

TrBPStart ==
  /\ IsEvent("bpstart") /\ T[Ev.root].tracked
  /\ BPStart(Ev.root)
  /\ UNCHANGED path

StateMatches(e, TT) ==
  \A i \in DOMAIN TT :
     /\ <<TT[i].tracked, TT[i].spent, TT[i].hasGrad>> = e.flags[i]
     /\ IsIntSeq(TT[i].grad) /\ Ints(TT[i].grad) = e.grads[i]

(* BackPropagate on an untracked root: no hook events, nothing changes *)
TrBPNoop ==
  /\ IsEvent("bpnoop") /\ ~T[Ev.root].tracked
  /\ BPStart(Ev.root)
  /\ StateMatches(Ev, T')
  /\ UNCHANGED path

TrSeed == IsEvent("seed") /\ BPSeed /\ UNCHANGED path

TrApply ==
  /\ IsEvent("apply")
  /\ Tgt(<<Ev.y, Ev.k>>) = Ev.x
  /\ BPApply(<<Ev.y, Ev.k>>)
  /\ IF T[Ev.x].tracked THEN IsIntSeq(T'[Ev.x].grad) /\ Ints(T'[Ev.x].grad) = Ev.g ELSE Ev.g = <<>>
  /\ UNCHANGED path

TrBPEnd ==
  /\ IsEvent("bpend") /\ bp.root = Ev.root
  /\ BPEnd
  /\ StateMatches(Ev, T')
  /\ UNCHANGED path

TrReset == IsEvent("reset") /\ Reset(Ev.id, Ev.tracked) /\ UNCHANGED path

TrEnd == IsEvent("end") /\ bp.phase = "idle" /\ T' = <<>> /\ bp' = Idle /\ nbp' = 0 /\ scr' = {} /\ UNCHANGED path

TraceInit == Init /\ l = 1
TraceNext == TrCreate \/ TrOp \/ TrBPStart \/ TrBPNoop \/ TrSeed \/ TrApply \/ TrBPEnd \/ TrReset \/ TrEnd
TraceSpec == TraceInit /\ [][TraceNext]_tvars

(* acceptance: the high-water mark of l reaches the end of the trace (cfg: CONSTRAINT HighWater,   *)
(* POSTCONDITION TraceAccepted, -workers 1)                                                         *)
ASSUME TLCSet(1, 0)
HighWater == TLCSet(1, IF l > TLCGet(1) THEN l ELSE TLCGet(1))
TraceAccepted == IF TLCGet(1) = Len(Trace) + 1 THEN TRUE
                 ELSE PrintT(<<"TRACE-REJECTED-AT", TLCGet(1)>>) /\ FALSE

(* the definitional derivative, evaluated at the end of every back-propagation of small graphs *)
C01_TotalSmall == (Len(T) <= 9) => C01_Total
=============================================================================
